package main

// Symbolic executor over go/ssa: path-wise strongest postconditions, loop heads
// are cut points, calls use the callee contract or are inlined.

import (
	"strconv"
	"go/ast"
	"os"
	"fmt"
	"time"
	"go/constant"
	"go/token"
	"go/types"
	"sort"
	"strings"

	"golang.org/x/tools/go/ssa"
)

// ---------------------------------------------------------------- values

type Value interface{}

type Cell struct {
	id   int
	name string
	typ  types.Type
}

type PathEl struct {
	sel      string // struct field selector
	idx      *Term  // array index (cells holding arrays/slices)
	elemSort string
}

type PtrV struct {
	cell *Cell
	path []PathEl
}

// ElemAddr is the address &s[i] of an element of a slice VALUE (assumption A2:
// writes through it update the SSA value it was taken from and, when that value
// was loaded from a field or local, that location as well).
type ElemAddr struct {
	origin ssa.Value
	frame  int
	slice  *Term
	idx    *Term
	path   []PathEl
}

type ClosureV struct {
	fn    *ssa.Function
	binds []Value
}

type TupleV struct{ vals []Value }

type ArrV struct { // engine-level fixed array (varargs of any, etc.)
	elems []Value
	et    types.Type
}

type AnyV struct {
	v   Value
	typ types.Type
}

type ParamFuncV struct {
	name string
	fc   *FuncContract
	sig  *types.Signature
}

type BoundMethodV struct { // method value of an opaque interface (t.converter.BinaryOperation)
	recv *Term
	name string
	sig  *types.Signature
}

// ---------------------------------------------------------------- state

type PC struct {
	parent *PC
	t      *Term
	n      int
}

func (p *PC) add(t *Term) *PC {
	if t.Kind == KBool && t.B {
		return p
	}
	n := 1
	if p != nil {
		n = p.n + 1
	}
	return &PC{parent: p, t: t, n: n}
}

func (p *PC) list() []*Term {
	var out []*Term
	for q := p; q != nil; q = q.parent {
		out = append(out, q.t)
	}
	for i, j := 0, len(out)-1; i < j; i, j = i+1, j-1 {
		out[i], out[j] = out[j], out[i]
	}
	return out
}

type Frame struct {
	fn     *ssa.Function
	env    map[ssa.Value]Value
	origin map[ssa.Value]*PtrV // slice values loaded from an address
	iter   map[*ssa.BasicBlock]int
	cutAt  map[*ssa.BasicBlock]bool
	decAt  map[*ssa.BasicBlock][]*Term // values of the loop's variant expressions at the loop head (decreases clauses)
	root   bool
}

type EvKind struct {
	n    *Term
	args []*Term // arrays
	res  []*Term // arrays
	seq  *Term   // array Int Int
	argSorts []string
	resSorts []string
}

type State struct {
	frames []*Frame
	cells  map[*Cell]Value
	pc     *PC
	heaps  map[string]*Term
	alloc  *Term
	ev     map[string]*EvKind
	clock  *Term
	old    *State // entry snapshot of the root function
	evEpoch string
	retBlock *ssa.BasicBlock
	curBlock *ssa.BasicBlock // block being executed in the top frame
	epochClock *Term
	heapEpoch string
	dead   bool
	infeasibleChecked bool
}

func (s *State) top() *Frame { return s.frames[len(s.frames)-1] }

func (s *State) clone() *State {
	n := &State{pc: s.pc, alloc: s.alloc, clock: s.clock, old: s.old, evEpoch: s.evEpoch, retBlock: s.retBlock, curBlock: s.curBlock, epochClock: s.epochClock, heapEpoch: s.heapEpoch, dead: s.dead}
	n.frames = make([]*Frame, len(s.frames))
	for i, f := range s.frames {
		nf := &Frame{fn: f.fn, root: f.root, env: make(map[ssa.Value]Value, len(f.env)), origin: make(map[ssa.Value]*PtrV, len(f.origin)),
			iter: make(map[*ssa.BasicBlock]int, len(f.iter)), cutAt: make(map[*ssa.BasicBlock]bool, len(f.cutAt))}
		for k, v := range f.env {
			nf.env[k] = v
		}
		for k, v := range f.origin {
			nf.origin[k] = v
		}
		for k, v := range f.iter {
			nf.iter[k] = v
		}
		for k, v := range f.cutAt {
			nf.cutAt[k] = v
		}
		if len(f.decAt) > 0 {
			nf.decAt = make(map[*ssa.BasicBlock][]*Term, len(f.decAt))
			for k, v := range f.decAt {
				nf.decAt[k] = v
			}
		}
		n.frames[i] = nf
	}
	n.cells = make(map[*Cell]Value, len(s.cells))
	for k, v := range s.cells {
		n.cells[k] = v
	}
	n.heaps = make(map[string]*Term, len(s.heaps))
	for k, v := range s.heaps {
		n.heaps[k] = v
	}
	n.ev = make(map[string]*EvKind, len(s.ev))
	for k, v := range s.ev {
		c := *v
		c.args = append([]*Term(nil), v.args...)
		c.res = append([]*Term(nil), v.res...)
		n.ev[k] = &c
	}
	return n
}

func (s *State) assume(t *Term) {
	if t.Kind == KBool && !t.B {
		s.dead = true
	}
	s.pc = s.pc.add(t)
}

// ---------------------------------------------------------------- obligations

type Obl struct {
	Name    string
	Func    string
	Kind    string
	Label   string
	Props   []string
	Assumes []*Term
	Goal    *Term
	Pos     string
	// results
	Status  string // unsat(discharged) | sat | unknown | timeout | trivial
	Solver  string
	Time    float64
	Model   string
	Size    int
	Text    string
	Replay  *ReplayInfo
	vacDone bool
	forceReplay bool // search for a failing input with the relaxed query although the solver gave no model
}

type Exec struct {
	w        *World
	obls     []*Obl
	rootKey  string
	rootFC   *FuncContract
	rootNames map[string]bool
	initMode bool // executing a package initialiser: init calls of imported packages are skipped
	fresh    int
	cellID   int
	paths    int
	maxPaths int
	notes    []string
	pureMode bool
	pureFail string
	pureRets []pureRet
	inlineDepth int
	safetyOn bool
	propsFilter map[string]bool
	usedAssume map[string]bool // callee contracts assumed
	libUsed  map[string]bool
	outside  string // non-empty: function left the supported subset
	pureCellBase int
	curReplay *ReplayInfo
	trivialSeen map[string]bool
	loopKinds map[string]bool
	pureHeaps map[string]*Term
	deadline time.Time
	steps int
	contractErrs int
	specEval int
	onExit func(st *State, kind string)
	onDeleteFunc func(st *State, oldS, newS *Term, pred Value)
	onMapDeleteFunc func(st *State, oldc, kept *Term, pred Value, cs, ks, vs string)
	onLibCall func(st *State, name string, args []Value, res []Value)
}

type pureRet struct {
	pc  []*Term
	val *Term
	vals []*Term
	panics bool
}

func (x *Exec) freshName(base string) string {
	x.fresh++
	base = strings.Map(func(r rune) rune {
		if r >= 'a' && r <= 'z' || r >= 'A' && r <= 'Z' || r >= '0' && r <= '9' || r == '_' || r == '.' {
			return r
		}
		return '_'
	}, base)
	return fmt.Sprintf("%s!%d", base, x.fresh)
}

func (x *Exec) freshVar(base, sortName string) *Term {
	return VarT(x.freshName(base), sortName)
}

func (x *Exec) note(format string, a ...interface{}) {
	x.notes = append(x.notes, fmt.Sprintf(format, a...))
}

func (x *Exec) noteOnce(format string, a ...interface{}) {
	msg := fmt.Sprintf(format, a...)
	for _, n := range x.notes {
		if n == msg {
			return
		}
	}
	x.notes = append(x.notes, msg)
}

func (x *Exec) oblige(st *State, kind, label string, props []string, goal *Term, pos token.Pos) {
	if st.dead {
		return
	}
	if x.pureMode {
		if kind == "safety" && !(goal.Kind == KBool && goal.B) {
			pcs := append(st.pc.list(), Not(goal))
			x.pureRets = append(x.pureRets, pureRet{pc: pcs, panics: true})
			st.assume(goal)
		}
		return
	}
	if x.specEval > 0 {
		return
	}
	defer func() {
		if kind == "safety" && x.mayAssume(kind, label) {
			st.assume(goal)
		}
	}()
	if !(goal.Kind == KBool && goal.B) {
		goal = simplifyUnder(goal, st.pc)
	}
	name := x.rootKey + "#" + kind + "#" + label
	o := &Obl{Name: name, Func: x.rootKey, Kind: kind, Label: label, Props: props, Goal: goal}
	if goal.Kind == KBool && goal.B {
		// discharged syntactically: kept (without its path condition) so that the ledger knows the name
		if x.trivialSeen == nil {
			x.trivialSeen = map[string]bool{}
		}
		if x.trivialSeen[name] {
			return
		}
		x.trivialSeen[name] = true
	} else {
		o.Assumes = st.pc.list()
	}
	if kind == "ensures" || kind == "safety" {
		o.Replay = x.curReplay
	}
	if pos.IsValid() {
		p := x.w.prog.Fset.Position(pos)
		o.Pos = fmt.Sprintf("%s:%d", shortFile(p.Filename), p.Line)
	}
	x.obls = append(x.obls, o)
}

// mayAssume: an asserted fact (a safety condition, a callee's precondition) is assumed for the
// rest of the path only if the obligation is one the unchanged tree is known to have (proved or
// recorded as undecided there).  An obligation that appears only on changed code may well be
// false; assuming it could make the path inconsistent and everything after it vacuously true.
func (x *Exec) mayAssume(kind, label string) bool {
	if x.w.knownNames == nil {
		return true // ledger generation / sweep: no record to compare with
	}
	return x.w.knownNames[x.rootKey+"#"+kind+"#"+label]
}

// obligeAssume: assert, then rely on it (see mayAssume).
func (x *Exec) obligeAssume(st *State, kind, label string, props []string, goal *Term, pos token.Pos) {
	x.oblige(st, kind, label, props, goal, pos)
	if x.mayAssume(kind, label) {
		st.assume(goal)
	}
}

func shortFile(f string) string {
	if i := strings.Index(f, "/repo/"); i >= 0 {
		return f[i+6:]
	}
	return f
}

// ---------------------------------------------------------------- helpers

func (x *Exec) newCell(name string, t types.Type) *Cell {
	x.cellID++
	return &Cell{id: x.cellID, name: name, typ: t}
}

func (x *Exec) term(v Value) *Term {
	switch t := v.(type) {
	case *Term:
		return t
	case *ArrV:
		return x.arrToSlice(t)
	case *AnyV:
		return x.term(t.v)
	case nil:
		return nil
	}
	return nil
}

func (x *Exec) mustTerm(v Value, ctx string) *Term {
	t := x.term(v)
	if t == nil {
		x.outside = fmt.Sprintf("%s: value %T has no SMT representation", ctx, v)
		return VarT("opaque_nil", "Opaque")
	}
	return t
}

func (x *Exec) arrToSlice(a *ArrV) *Term {
	es := x.w.sortOf(a.et)
	ss := x.w.sliceSortOfElemSort(es)
	arr := x.w.constArray(es)
	for i, e := range a.elems {
		var et *Term
		if e == nil {
			et = x.w.zero(a.et)
		} else {
			et = x.mustTerm(e, "array element")
		}
		arr = Store(arr, IntT(int64(i)), et)
	}
	return mkSlice(ss, arr, IntT(int64(len(a.elems))), False)
}

func (x *Exec) constVal(c *ssa.Const) Value {
	t := c.Type()
	if c.Value == nil {
		// nil or zero value
		switch u := t.Underlying().(type) {
		case *types.Pointer:
			_ = u
			return x.w.zero(t)
		case *types.Signature:
			return nil
		case *types.Interface:
			return x.w.zero(t)
		}
		return x.w.zero(t)
	}
	switch c.Value.Kind() {
	case constant.Bool:
		return BoolT(constant.BoolVal(c.Value))
	case constant.Int:
		i, _ := constant.Int64Val(c.Value)
		return IntT(i)
	case constant.String:
		return StrT(constant.StringVal(c.Value))
	}
	x.outside = "constant kind " + c.Value.Kind().String()
	return x.w.zero(t)
}

func (x *Exec) get(st *State, v ssa.Value) Value {
	switch vv := v.(type) {
	case *ssa.Const:
		return x.constVal(vv)
	case *ssa.Function:
		return &ClosureV{fn: vv}
	case *ssa.Global:
		return x.globalPtr(st, vv)
	case *ssa.Builtin:
		return vv
	}
	f := st.top()
	if val, ok := f.env[v]; ok {
		return val
	}
	// free variables of closures are bound in env as well
	x.outside = fmt.Sprintf("unbound SSA value %s in %s", v.Name(), f.fn.Name())
	return x.havocOfType(v.Name(), v.Type())
}

var globalCells = map[*ssa.Global]*Cell{}

func (x *Exec) globalPtr(st *State, g *ssa.Global) Value {
	c := globalCells[g]
	if c == nil {
		c = &Cell{id: -len(globalCells) - 1, name: "glob_" + g.Name(), typ: g.Type().(*types.Pointer).Elem()}
		globalCells[g] = c
	}
	if _, ok := st.cells[c]; !ok {
		// package-level variables are read-only in the repo (checked by the C14 frame sweep);
		// their content is the initialiser's: the term the package initialiser computes where that
		// is a closed term, an unconstrained constant per global otherwise.
		st.cells[c] = x.globalInit(g, c)
		if !x.initMode && g.Pkg != nil && x.w.inRepoPkg(g.Pkg) {
			if pi := x.w.pkgInitOf(g.Pkg); pi != nil {
				if v, ok := pi.vals[g]; ok {
					st.cells[c] = v
					if m, isMap := c.typ.Underlying().(*types.Map); isMap {
						// the table itself lives in the heap: its content is what the initialiser stored
						cs, _, _ := mapSorts(x.w, m)
						if ih, ok := pi.heaps[cs]; ok {
							ref := v.(*Term)
							st.assume(Eq(Select(x.heap(st, cs), ref, cs), Select(ih, ref, cs)))
						}
					}
				}
			}
		}
	}
	return &PtrV{cell: c}
}

func (x *Exec) globalInit(g *ssa.Global, c *Cell) Value {
	s := x.w.sortOf(c.typ)
	return VarT("G_"+mangle(shortPkg(g.Pkg.Pkg.Path())+"_"+g.Name()), s)
}

// ---------------------------------------------------------------- package initialisers
//
// A package-level variable of the repository that is only ever assigned by its package's
// initialiser has the value that initialiser computes.  The synthetic init function is executed
// once, symbolically, from an empty state (calls to the init functions of imported packages are
// skipped); where that yields a closed term (tables of literals: the lexer's operator list and
// keyword map) the term is the global's content, otherwise the global stays an unconstrained
// constant.  Map-valued globals get references below zero, which no parameter and no fresh
// allocation can have; their content is a fact about the heap assumed when the global is first read.

type pkgInit struct {
	vals  map[*ssa.Global]Value
	heaps map[string]*Term // final heaps of the init run (for map-valued globals)
}

var pkgInits = map[*ssa.Package]*pkgInit{}
var pkgInitRunning = map[*ssa.Package]bool{}

func (w *World) pkgInitOf(pkg *ssa.Package) *pkgInit {
	if pi, ok := pkgInits[pkg]; ok {
		return pi
	}
	if pkgInitRunning[pkg] {
		return nil
	}
	pkgInitRunning[pkg] = true
	defer delete(pkgInitRunning, pkg)
	pi := &pkgInit{vals: map[*ssa.Global]Value{}, heaps: map[string]*Term{}}
	pkgInits[pkg] = pi
	fn := pkg.Func("init")
	if fn == nil || len(fn.Blocks) < 2 {
		return pi
	}
	x := newExec(w, "init:"+pkg.Pkg.Path())
	x.initMode = true
	x.safetyOn = false
	st := newState()
	st.alloc = IntT(-100000)
	var finals []*State
	x.runFunc(st, fn, nil, nil, func(s *State, res []Value) { finals = append(finals, s) })
	if x.outside != "" || len(finals) == 0 {
		return pi
	}
	// the run that executed the initialiser is the one with the most cells written
	best := finals[0]
	for _, f := range finals[1:] {
		if len(f.cells) > len(best.cells) {
			best = f
		}
	}
	for _, m := range pkg.Members {
		g, ok := m.(*ssa.Global)
		if !ok || strings.HasPrefix(g.Name(), "init$") {
			continue
		}
		c := globalCells[g]
		if c == nil {
			continue
		}
		v, ok := best.cells[c]
		if !ok {
			continue
		}
		t, isTerm := v.(*Term)
		if !isTerm || !closedTerm(t) || !w.onlyInitWrites(g) {
			continue
		}
		pi.vals[g] = t
	}
	for h, t := range best.heaps {
		pi.heaps[h] = t
	}
	return pi
}

// closedTerm: no free symbolic inputs other than the initial heaps and unknown map defaults.
func closedTerm(t *Term) bool {
	fv := map[string]string{}
	collectVars(t, fv)
	for v := range fv {
		if strings.HasPrefix(v, "G_") || strings.HasPrefix(v, "ext") || strings.Contains(v, "_r0") {
			return false
		}
	}
	return true
}

// onlyInitWrites: no function of the repository other than the package initialiser stores to g
// or lets its address escape.
func (w *World) onlyInitWrites(g *ssa.Global) bool {
	refs := 0
	for _, fn := range w.allRepoFuncs() {
		if fn.Name() == "init" && fn.Synthetic != "" {
			continue
		}
		for _, b := range fn.Blocks {
			for _, ins := range b.Instrs {
				for _, op := range ins.Operands(nil) {
					if op == nil || *op != ssa.Value(g) {
						continue
					}
					refs++
					switch u := ins.(type) {
					case *ssa.UnOp:
						if u.Op != token.MUL {
							return false
						}
					case *ssa.DebugRef:
					default:
						return false
					}
				}
			}
		}
	}
	return true
}

func (x *Exec) havocOfType(base string, t types.Type) Value {
	switch u := t.Underlying().(type) {
	case *types.Tuple:
		tv := &TupleV{}
		for i := 0; i < u.Len(); i++ {
			tv.vals = append(tv.vals, x.havocOfType(fmt.Sprintf("%s_%d", base, i), u.At(i).Type()))
		}
		return tv
	case *types.Signature:
		return &ParamFuncV{name: base, sig: u}
	case *types.Pointer:
		if _, ok := u.Elem().Underlying().(*types.Struct); ok {
			return x.freshVar(base, x.w.sortOf(t))
		}
	}
	return x.freshVar(base, x.w.sortOf(t))
}

// typeFacts returns well-formedness facts for a fresh symbolic value of type t
// (slice lengths are non-negative, nil slices are empty, ...).
func (x *Exec) typeFacts(v *Term, t types.Type, depth int) []*Term {
	var out []*Term
	if v == nil {
		return nil
	}
	switch u := t.Underlying().(type) {
	case *types.Slice:
		if strings.HasPrefix(v.Sort, "Sl_") {
			out = append(out, Cmp(">=", slLen(v), IntT(0)))
			out = append(out, Implies(slNil(v), Eq(slLen(v), IntT(0))))
			if _, inner := u.Elem().Underlying().(*types.Slice); inner && depth < 2 {
				// every element slice is itself well-formed
				es := elemSortOfSlice(x.w, v.Sort)
				x.fresh++
				k := VarT(fmt.Sprintf("k!t%d", x.fresh), "Int")
				el := App("select", es, slArr(v), k)
				out = append(out, Quant("forall", []*Term{k}, Cmp(">=", Sel(es+"_len", el), IntT(0))))
			}
		}
	case *types.Struct:
		if depth > 3 {
			return out
		}
		d := x.w.dts[v.Sort]
		if d == nil {
			return out
		}
		for i := 0; i < u.NumFields(); i++ {
			out = append(out, x.typeFacts(Sel(d.Ctors[0].Sels[i], v), u.Field(i).Type(), depth+1)...)
		}
	case *types.Basic:
		if u.Info()&types.IsUnsigned != 0 {
			out = append(out, Cmp(">=", v, IntT(0)))
		}
	case *types.Map:
		out = append(out, Cmp(">=", v, IntT(0)))
	}
	return out
}

// ---------------------------------------------------------------- memory

func (x *Exec) load(st *State, addr Value, t types.Type, pos token.Pos) Value {
	switch a := addr.(type) {
	case *PtrV:
		cur, ok := st.cells[a.cell]
		if !ok {
			cur = x.w.zero(a.cell.typ)
		}
		return x.descend(cur, a.path)
	case *ElemAddr:
		return x.descend(Select(slArr(a.slice), a.idx, elemSortOfSlice(x.w, a.slice.Sort)), a.path)
	case *Term:
		// boxed pointer used as data: *p reads the boxed value
		if strings.HasPrefix(a.Sort, "Ptr_") {
			x.oblige(st, "safety", "nil-deref:"+x.srcAt(pos), []string{"C13"}, Not(Is("nil_"+a.Sort, a)), pos)
			return Sel("unbox_"+a.Sort, a)
		}
	}
	x.outside = fmt.Sprintf("load through %T", addr)
	return x.havocOfType("load", t)
}

func (x *Exec) descend(cur Value, path []PathEl) Value {
	for _, p := range path {
		switch c := cur.(type) {
		case *ArrV:
			if p.idx != nil && p.idx.Kind == KInt && int(p.idx.I) < len(c.elems) {
				cur = c.elems[p.idx.I]
				if cur == nil {
					cur = x.w.zero(c.et)
				}
				continue
			}
			cur = x.arrToSlice(c)
			ct := cur.(*Term)
			cur = Select(slArr(ct), p.idx, elemSortOfSlice(x.w, ct.Sort))
		case *Term:
			if p.sel != "" {
				cur = Sel(p.sel, c)
			} else {
				cur = Select(slArr(c), p.idx, elemSortOfSlice(x.w, c.Sort))
			}
		default:
			x.outside = fmt.Sprintf("descend into %T", cur)
			return VarT("opaque_nil", "Opaque")
		}
	}
	return cur
}

func (x *Exec) update(cur Value, path []PathEl, v Value) Value {
	if len(path) == 0 {
		return v
	}
	p := path[0]
	switch c := cur.(type) {
	case *ArrV:
		if p.idx != nil && p.idx.Kind == KInt && int(p.idx.I) < len(c.elems) {
			n := &ArrV{elems: append([]Value(nil), c.elems...), et: c.et}
			old := n.elems[p.idx.I]
			if old == nil && len(path) > 1 {
				old = x.w.zero(c.et)
			}
			n.elems[p.idx.I] = x.update(old, path[1:], v)
			return n
		}
		ct := x.arrToSlice(c)
		return x.update(ct, path, v)
	case *Term:
		if p.sel != "" {
			ci := selToCtor[p.sel]
			var args []*Term
			for i, s := range ci.Sels {
				if s == p.sel {
					nv := x.update(Sel(s, c), path[1:], v)
					args = append(args, x.mustTerm(nv, "field store"))
					_ = i
				} else {
					args = append(args, Sel(s, c))
				}
			}
			return Mk(ci.Name, args...)
		}
		es := elemSortOfSlice(x.w, c.Sort)
		oldE := Select(slArr(c), p.idx, es)
		nv := x.mustTerm(x.update(oldE, path[1:], v), "elem store")
		return mkSlice(c.Sort, Store(slArr(c), p.idx, nv), slLen(c), slNil(c))
	}
	x.outside = fmt.Sprintf("update into %T", cur)
	return cur
}

func (x *Exec) store(st *State, addr Value, v Value, pos token.Pos) {
	if pv, ok := v.(*PtrV); ok && len(pv.path) == 0 {
		// a pointer to a local struct stored as data: box the current content
		// (assumption: the pointee is not mutated afterwards through another alias)
		if named, ok := pv.cell.typ.(*types.Named); ok && !isHandleType(named) {
			if _, isSt := named.Underlying().(*types.Struct); isSt {
				ps := x.w.sortOf(types.NewPointer(named))
				v = Mk("box_"+ps, x.mustTerm(x.load(st, pv, nil, pos), "boxed pointee"))
			}
		}
	}
	switch a := addr.(type) {
	case *PtrV:
		cur, ok := st.cells[a.cell]
		if !ok {
			cur = x.w.zero(a.cell.typ)
		}
		if x.pureMode && !x.isLocalCell(st, a.cell) {
			x.pureFail = "store to non-local memory"
		}
		st.cells[a.cell] = x.update(cur, a.path, v)
	case *ElemAddr:
		oldE := Select(slArr(a.slice), a.idx, elemSortOfSlice(x.w, a.slice.Sort))
		nv := x.mustTerm(x.update(oldE, a.path, v), "slice element store")
		ns := mkSlice(a.slice.Sort, Store(slArr(a.slice), a.idx, nv), slLen(a.slice), slNil(a.slice))
		fr := st.frames[a.frame]
		fr.env[a.origin] = ns
		if org, ok := fr.origin[a.origin]; ok {
			x.store(st, org, ns, pos)
		}
		if x.pureMode {
			x.pureFail = "store through slice element"
		}
	default:
		x.outside = fmt.Sprintf("store through %T", addr)
	}
}

func (x *Exec) isLocalCell(st *State, c *Cell) bool {
	return c.id > x.pureCellBase
}

// ---------------------------------------------------------------- running

type cont func(st *State, results []Value)

func (x *Exec) bindParams(st *State, fn *ssa.Function, args []Value, binds []Value) *Frame {
	fr := &Frame{fn: fn, env: map[ssa.Value]Value{}, origin: map[ssa.Value]*PtrV{}, iter: map[*ssa.BasicBlock]int{}, cutAt: map[*ssa.BasicBlock]bool{}}
	for i, p := range fn.Params {
		if i < len(args) {
			fr.env[p] = args[i]
		}
	}
	for i, fv := range fn.FreeVars {
		if i < len(binds) {
			fr.env[fv] = binds[i]
		}
	}
	return fr
}

func (x *Exec) runFunc(st *State, fn *ssa.Function, args []Value, binds []Value, k cont) {
	if len(fn.Blocks) == 0 {
		x.outside = "call to function without body: " + fn.String()
		k(st, x.havocResults(fn.Signature, fn.Name()))
		return
	}
	fr := x.bindParams(st, fn, args, binds)
	st.frames = append(st.frames, fr)
	x.runBlock(st, fn.Blocks[0], nil, func(st2 *State, res []Value) {
		st2.frames = st2.frames[:len(st2.frames)-1]
		k(st2, res)
	})
}

func (x *Exec) havocResults(sig *types.Signature, base string) []Value {
	var out []Value
	for i := 0; i < sig.Results().Len(); i++ {
		out = append(out, x.havocOfType(fmt.Sprintf("%s_r%d", base, i), sig.Results().At(i).Type()))
	}
	return out
}

func (x *Exec) runBlock(st *State, b *ssa.BasicBlock, pred *ssa.BasicBlock, k cont) {
	if st.dead || x.outside != "" && x.pureMode {
		return
	}
	if x.paths > x.maxPaths || (!x.deadline.IsZero() && x.steps%256 == 0 && time.Now().After(x.deadline)) {
		if x.outside == "" {
			x.outside = fmt.Sprintf("path cap %d / time budget exceeded (paths=%d)", x.maxPaths, x.paths)
		}
		return
	}
	x.steps++
	fr := st.top()
	if li := loopInfoFor(fr.fn); li != nil {
		// leaving a loop through its header test: `exit` clauses of that loop
		if pred != nil {
			if lp := li.byHeader[pred]; lp != nil && !lp.blocks[b] {
				if fc := x.w.contracts[funcKey(fr.fn)]; fc != nil {
					for _, c := range x.w.loopClauses(fr.fn, fc, lp) {
						if c.Kind != "exit" {
							continue
						}
						g, err := x.evalClauseInFrame(st, fr, c, lp)
						if err != nil {
							x.contractError(c, err)
							continue
						}
						x.oblige(st, "loop-exit", loopOblName(lp, c), c.Props, g, token.NoPos)
					}
				}
			}
		}
		if lp := li.byHeader[b]; lp != nil {
			if !x.handleLoopHead(st, fr, lp, b, pred) {
				return
			}
		}
	}
	// phis
	idx := 0
	var phiVals []Value
	var phis []*ssa.Phi
	for ; idx < len(b.Instrs); idx++ {
		phi, ok := b.Instrs[idx].(*ssa.Phi)
		if !ok {
			break
		}
		if hv, ok := fr.env[phi]; ok && fr.cutAt[b] && pred != nil && !b.Dominates(pred) {
			// freshly havocked at the cut: keep
			_ = hv
			continue
		}
		for i, p := range b.Preds {
			if p == pred {
				phiVals = append(phiVals, x.boxIfPtr(st, x.get(st, phi.Edges[i]), phi.Type()))
				phis = append(phis, phi)
				break
			}
		}
	}
	for i, p := range phis {
		fr.env[p] = phiVals[i]
	}
	x.runInstrs(st, b, idx, k)
}

func (x *Exec) runInstrs(st *State, b *ssa.BasicBlock, idx int, k cont) {
	if len(st.frames) == 1 {
		st.curBlock = b
	}
	for ; idx < len(b.Instrs); idx++ {
		if st.dead {
			return
		}
		ins := b.Instrs[idx]
		switch in := ins.(type) {
		case *ssa.If:
			c := x.mustTerm(x.get(st, in.Cond), "if condition")
			if c.Kind == KBool {
				if c.B {
					x.runBlock(st, b.Succs[0], b, k)
				} else {
					x.runBlock(st, b.Succs[1], b, k)
				}
				return
			}
			st2 := st.clone()
			st.assume(c)
			x.runBlock(st, b.Succs[0], b, k)
			st2.assume(Not(c))
			x.paths++
			x.runBlock(st2, b.Succs[1], b, k)
			return
		case *ssa.Jump:
			x.runBlock(st, b.Succs[0], b, k)
			return
		case *ssa.Return:
			st.retBlock = b
			var res []Value
			for _, r := range in.Results {
				res = append(res, x.get(st, r))
			}
			k(st, res)
			return
		case *ssa.Panic:
			x.handlePanic(st, in)
			return
		case *ssa.Call:
			next := idx + 1
			x.doCall(st, in, &in.Call, func(st2 *State, res []Value) {
				fr := st2.top()
				if len(res) == 1 {
					fr.env[in] = res[0]
				} else if len(res) > 1 {
					fr.env[in] = &TupleV{vals: res}
				}
				x.runInstrs(st2, b, next, k)
			})
			return
		default:
			x.step(st, ins)
		}
	}
}

func (x *Exec) handlePanic(st *State, in *ssa.Panic) {
	if x.pureMode {
		x.pureRets = append(x.pureRets, pureRet{pc: st.pc.list(), panics: true})
		return
	}
	// explicit panic(...) reachable: for the CLI (package main) a panic is the
	// documented non-zero exit; elsewhere it is a safety violation.
	fr := st.top()
	label := "explicit-panic:" + x.srcAt(in.Pos())
	if fr.fn.Pkg != nil && fr.fn.Pkg.Pkg.Name() == "main" {
		x.exitEvents(st, "panic")
		return
	}
	x.oblige(st, "safety", label, []string{"C13"}, False, in.Pos())
}

func (x *Exec) exitEvents(st *State, kind string) {
	if x.onExit != nil {
		x.onExit(st, kind)
	}
}

// step interprets one non-control instruction.
func (x *Exec) step(st *State, ins ssa.Instruction) {
	fr := st.top()
	w := x.w
	switch in := ins.(type) {
	case *ssa.Alloc:
		c := x.newCell(in.Comment+"_"+in.Name(), in.Type().(*types.Pointer).Elem())
		et := in.Type().(*types.Pointer).Elem()
		if at, ok := et.Underlying().(*types.Array); ok {
			st.cells[c] = &ArrV{elems: make([]Value, at.Len()), et: at.Elem()}
		} else if _, ok := et.Underlying().(*types.Signature); ok {
			st.cells[c] = nil
		} else {
			st.cells[c] = w.zero(et)
		}
		fr.env[in] = &PtrV{cell: c}
	case *ssa.FieldAddr:
		base := x.get(st, in.X)
		stt := in.X.Type().Underlying().(*types.Pointer).Elem().Underlying().(*types.Struct)
		ss := w.sortOf(in.X.Type().Underlying().(*types.Pointer).Elem())
		sel := w.structFieldSel(ss, stt.Field(in.Field).Name())
		switch b := base.(type) {
		case *PtrV:
			np := &PtrV{cell: b.cell, path: append(append([]PathEl(nil), b.path...), PathEl{sel: sel})}
			fr.env[in] = np
		case *ElemAddr:
			fr.env[in] = &ElemAddr{origin: b.origin, frame: b.frame, slice: b.slice, idx: b.idx, path: append(append([]PathEl(nil), b.path...), PathEl{sel: sel})}
		case *Term:
			if strings.HasPrefix(b.Sort, "Ptr_") {
				// read-only view into a boxed value
				x.oblige(st, "safety", "nil-deref:"+x.srcAt(in.Pos()), []string{"C13"}, Not(Is("nil_"+b.Sort, b)), in.Pos())
				c := x.newCell("boxview", in.X.Type().Underlying().(*types.Pointer).Elem())
				st.cells[c] = Sel("unbox_"+b.Sort, b)
				fr.env[in] = &PtrV{cell: c, path: []PathEl{{sel: sel}}}
			} else {
				x.outside = "FieldAddr on " + b.Sort
			}
		default:
			x.outside = fmt.Sprintf("FieldAddr on %T", base)
			fr.env[in] = &PtrV{cell: x.newCell("unk", in.Type().(*types.Pointer).Elem())}
		}
	case *ssa.Field:
		base := x.mustTerm(x.get(st, in.X), "Field")
		stt := in.X.Type().Underlying().(*types.Struct)
		sel := w.structFieldSel(base.Sort, stt.Field(in.Field).Name())
		if _, ok := selToCtor[sel]; !ok {
			x.outside = "Field selector " + sel
			fr.env[in] = x.havocOfType(in.Name(), in.Type())
			return
		}
		fr.env[in] = x.fromSort(Sel(sel, base), in.Type())
	case *ssa.IndexAddr:
		base := x.get(st, in.X)
		idx := x.mustTerm(x.get(st, in.Index), "index")
		switch b := base.(type) {
		case *PtrV: // pointer to array
			at := in.X.Type().Underlying().(*types.Pointer).Elem().Underlying().(*types.Array)
			x.oblige(st, "safety", "index:"+x.srcAt(in.Pos()), []string{"C13"}, And(Cmp(">=", idx, IntT(0)), Cmp("<", idx, IntT(at.Len()))), in.Pos())
			fr.env[in] = &PtrV{cell: b.cell, path: append(append([]PathEl(nil), b.path...), PathEl{idx: idx, elemSort: w.sortOf(at.Elem())})}
		case *Term:
			x.oblige(st, "safety", "index:"+x.srcAt(in.Pos()), []string{"C13"}, And(Cmp(">=", idx, IntT(0)), Cmp("<", idx, slLen(b))), in.Pos())
			fr.env[in] = &ElemAddr{origin: in.X, frame: len(st.frames) - 1, slice: b, idx: idx}
		case *ArrV:
			bt := x.arrToSlice(b)
			x.oblige(st, "safety", "index:"+x.srcAt(in.Pos()), []string{"C13"}, And(Cmp(">=", idx, IntT(0)), Cmp("<", idx, slLen(bt))), in.Pos())
			fr.env[in] = &ElemAddr{origin: in.X, frame: len(st.frames) - 1, slice: bt, idx: idx}
		default:
			x.outside = fmt.Sprintf("IndexAddr on %T", base)
		}
	case *ssa.Index:
		base := x.get(st, in.X)
		idx := x.mustTerm(x.get(st, in.Index), "index")
		if bt, ok := base.(*Term); ok && bt.Sort == "String" {
			x.oblige(st, "safety", "index:"+x.srcAt(in.Pos()), []string{"C13"}, And(Cmp(">=", idx, IntT(0)), Cmp("<", idx, StrLen(bt))), in.Pos())
			fr.env[in] = strByteAt(bt, idx)
			return
		}
		bt := x.mustTerm(base, "Index")
		x.oblige(st, "safety", "index:"+x.srcAt(in.Pos()), []string{"C13"}, And(Cmp(">=", idx, IntT(0)), Cmp("<", idx, slLen(bt))), in.Pos())
		fr.env[in] = x.fromSort(Select(slArr(bt), idx, elemSortOfSlice(w, bt.Sort)), in.Type())
	case *ssa.Lookup:
		x.doLookup(st, in)
	case *ssa.UnOp:
		x.doUnOp(st, in)
	case *ssa.BinOp:
		a := x.get(st, in.X)
		b := x.get(st, in.Y)
		fr.env[in] = x.binop(st, in.Op, a, b, in.X.Type(), in.Pos())
	case *ssa.Store:
		x.store(st, x.get(st, in.Addr), x.get(st, in.Val), in.Pos())
	case *ssa.MakeInterface:
		fr.env[in] = x.makeIface(st, x.get(st, in.X), in.X.Type(), in.Type())
	case *ssa.ChangeInterface:
		fr.env[in] = x.get(st, in.X)
	case *ssa.ChangeType:
		fr.env[in] = x.get(st, in.X)
	case *ssa.Convert:
		fr.env[in] = x.convert(st, x.get(st, in.X), in.X.Type(), in.Type(), in.Pos())
	case *ssa.Extract:
		tv, ok := x.get(st, in.Tuple).(*TupleV)
		if !ok || in.Index >= len(tv.vals) {
			x.outside = "extract from non-tuple"
			fr.env[in] = x.havocOfType(in.Name(), in.Type())
			return
		}
		fr.env[in] = tv.vals[in.Index]
	case *ssa.Slice:
		x.doSlice(st, in)
	case *ssa.MakeSlice:
		n := x.mustTerm(x.get(st, in.Len), "make len")
		ss := w.sortOf(in.Type())
		es := elemSortOfSlice(w, ss)
		// all elements are the zero value
		zero := w.zero(in.Type().Underlying().(*types.Slice).Elem())
		arr := App("(as const "+arraySort(es)+")", arraySort(es), zero)
		x.oblige(st, "safety", "makeslice-len:"+x.srcAt(in.Pos()), []string{"C13"}, Cmp(">=", n, IntT(0)), in.Pos())
		fr.env[in] = mkSlice(ss, arr, n, False)
	case *ssa.MakeMap:
		x.doMakeMap(st, in)
	case *ssa.MapUpdate:
		x.doMapUpdate(st, in)
	case *ssa.MakeClosure:
		var binds []Value
		for _, b := range in.Bindings {
			binds = append(binds, x.get(st, b))
		}
		fr.env[in] = &ClosureV{fn: in.Fn.(*ssa.Function), binds: binds}
	case *ssa.TypeAssert:
		x.doTypeAssert(st, in)
	case *ssa.Range:
		x.doRange(st, in)
	case *ssa.Next:
		x.doNext(st, in)
	case *ssa.DebugRef:
	case *ssa.RunDefers:
	default:
		x.outside = fmt.Sprintf("unsupported instruction %T", ins)
	}
}

func strByteAt(s, idx *Term) *Term {
	if s.Kind == KStr && idx.Kind == KInt && idx.I >= 0 && int(idx.I) < len(s.S) {
		return IntT(int64(s.S[idx.I]))
	}
	return App("str.to_code", "Int", App("str.at", "String", s, idx))
}

// fromSort converts a term read out of a data structure into the engine-level
// representation for its Go type (identity except for func/any values).
func (x *Exec) fromSort(t *Term, typ types.Type) Value {
	return t
}

func (x *Exec) doUnOp(st *State, in *ssa.UnOp) {
	fr := st.top()
	v := x.get(st, in.X)
	switch in.Op {
	case token.MUL:
		val := x.load(st, v, in.Type(), in.Pos())
		fr.env[in] = val
		if p, ok := v.(*PtrV); ok {
			if _, isSl := in.Type().Underlying().(*types.Slice); isSl {
				fr.origin[in] = p
			}
		}
	case token.NOT:
		fr.env[in] = Not(x.mustTerm(v, "not"))
	case token.SUB:
		fr.env[in] = Sub(IntT(0), x.mustTerm(v, "neg"))
	default:
		x.outside = "unop " + in.Op.String()
		fr.env[in] = x.havocOfType(in.Name(), in.Type())
	}
}

func (x *Exec) binop(st *State, op token.Token, a, b Value, opType types.Type, pos token.Pos) Value {
	// comparisons with nil for engine-level values
	if op == token.EQL || op == token.NEQ {
		an, bn := a == nil, b == nil
		_, aClos := a.(*ClosureV)
		_, bClos := b.(*ClosureV)
		_, aPF := a.(*ParamFuncV)
		_, bPF := b.(*ParamFuncV)
		if an || bn || aClos || bClos || aPF || bPF {
			var res bool
			switch {
			case an && bn:
				res = true
			case (aClos || aPF) && bn, (bClos || bPF) && an:
				res = false
				if aPF || bPF {
					// a function-typed parameter: nil-ness unknown
					// (one symbol per parameter: the same one contracts refer to with `f != nil`)
					var pf *ParamFuncV
					if aPF {
						pf = a.(*ParamFuncV)
					} else {
						pf = b.(*ParamFuncV)
					}
					r := VarT("fnnil_"+pf.name, "Bool")
					if op == token.NEQ {
						return Not(r)
					}
					return r
				}
			default:
				res = false
			}
			if op == token.NEQ {
				res = !res
			}
			return BoolT(res)
		}
		pa, aok := a.(*PtrV)
		pb, bok := b.(*PtrV)
		if aok || bok {
			var res *Term
			if aok && bok {
				res = BoolT(pa.cell == pb.cell && len(pa.path) == len(pb.path))
			} else {
				res = False // handle vs nil/boxed: handles are never nil
			}
			if op == token.NEQ {
				res = Not(res)
			}
			return res
		}
	}
	ta := x.mustTerm(a, "binop lhs")
	tb := x.mustTerm(b, "binop rhs")
	isStr := ta.Sort == "String"
	switch op {
	case token.ADD:
		if isStr {
			return Concat(ta, tb)
		}
		return Add(ta, tb)
	case token.SUB:
		return Sub(ta, tb)
	case token.MUL:
		return Mul(ta, tb)
	case token.QUO:
		x.oblige(st, "safety", "div-by-zero:"+x.srcAt(pos), []string{"C13"}, Neq(tb, IntT(0)), pos)
		return goDiv(ta, tb)
	case token.REM:
		x.oblige(st, "safety", "div-by-zero:"+x.srcAt(pos), []string{"C13"}, Neq(tb, IntT(0)), pos)
		return goRem(ta, tb)
	case token.EQL:
		return x.eqTerms(ta, tb)
	case token.NEQ:
		return Not(x.eqTerms(ta, tb))
	case token.LSS, token.LEQ, token.GTR, token.GEQ:
		if isStr {
			o := map[token.Token]string{token.LSS: "str.<", token.LEQ: "str.<="}
			switch op {
			case token.LSS:
				return App(o[op], "Bool", ta, tb)
			case token.LEQ:
				return App(o[op], "Bool", ta, tb)
			case token.GTR:
				return App("str.<", "Bool", tb, ta)
			default:
				return App("str.<=", "Bool", tb, ta)
			}
		}
		return Cmp(op.String(), ta, tb)
	case token.LAND:
		return And(ta, tb)
	case token.LOR:
		return Or(ta, tb)
	}
	x.outside = "binop " + op.String()
	return x.freshVar("binop", ta.Sort)
}

// eqTerms: Go == on terms.  Slices compare only against nil.
func (x *Exec) eqTerms(a, b *Term) *Term {
	if strings.HasPrefix(a.Sort, "Sl_") {
		// s == nil
		if b.Kind == KApp && b.Op == "mk_"+b.Sort && len(b.Args) == 3 && b.Args[2].Kind == KBool && b.Args[2].B {
			return slNil(a)
		}
		if a.Kind == KApp && a.Op == "mk_"+a.Sort && len(a.Args) == 3 && a.Args[2].Kind == KBool && a.Args[2].B {
			return slNil(b)
		}
	}
	return Eq(a, b)
}

func goDiv(a, b *Term) *Term {
	if a.Kind == KInt && b.Kind == KInt && b.I != 0 {
		return IntT(a.I / b.I)
	}
	// Go truncates toward zero; SMT div floors for positive divisor
	q := App("div", "Int", a, b)
	return Ite(Or(Cmp(">=", a, IntT(0)), Eq(App("mod", "Int", a, b), IntT(0))), q,
		Ite(Cmp(">", b, IntT(0)), Add(q, IntT(1)), Sub(q, IntT(1))))
}

func goRem(a, b *Term) *Term {
	if a.Kind == KInt && b.Kind == KInt && b.I != 0 {
		return IntT(a.I % b.I)
	}
	return Sub(a, Mul(b, goDiv(a, b)))
}

func (x *Exec) makeIface(st *State, v Value, from, to types.Type) Value {
	w := x.w
	ts := w.sortOf(to)
	switch ts {
	case "Dyn":
		n, ok := from.(*types.Named)
		if !ok {
			if p, ok2 := from.(*types.Pointer); ok2 {
				n, ok = p.Elem().(*types.Named)
			}
		}
		if ok {
			if cn, ok := w.dynCtor[typeKey(n)]; ok {
				payload := x.mustTerm(v, "MakeInterface")
				if !x.pureMode && x.specEval == 0 {
					for _, c := range w.nodeInv[typeKey(n)] {
						fn := st.top().fn
						env := x.newSpecEnv(st, st, fn)
						env.vars[c.Param] = payload
						g, err := env.evalBool(c.Expr)
						if err != nil {
							x.contractError(c, err)
							continue
						}
						// a node that becomes an AST interface value has its invariant from then on
						x.oblige(st, "node-invariant", n.Obj().Name()+":"+c.Label, c.Props, g, token.NoPos)
					}
				}
				return Mk(cn, payload)
			}
		}
		x.outside = "MakeInterface to AST interface from " + from.String()
		return x.freshVar("dyn", "Dyn")
	case "Err":
		// a concrete error type from a library
		return Mk("err_mk", x.freshVar("errmsg", "String"))
	}
	// any / other interfaces: keep engine-level
	return &AnyV{v: v, typ: from}
}

func (x *Exec) convert(st *State, v Value, from, to types.Type, pos token.Pos) Value {
	fs, ts := x.w.sortOf(from), x.w.sortOf(to)
	t := x.term(v)
	if t == nil {
		return v
	}
	fb, _ := from.Underlying().(*types.Basic)
	tb, _ := to.Underlying().(*types.Basic)
	switch {
	case fs == ts && fs != "Opaque":
		if fb != nil && tb != nil && fs == "Int" {
			// integer conversions between widths: mathematical ints (assumption A1),
			// except signed->unsigned which we keep exact for non-negative values only
			return t
		}
		return t
	case fs == "Int" && ts == "String":
		// string(byte) / string(rune): UTF-8 encoding of the code point
		return runeToString(t)
	case fs == "String" && strings.HasPrefix(ts, "Sl_"):
		// []byte(s) / []rune(s)
		es := elemSortOfSlice(x.w, ts)
		_ = es
		if sl, ok := to.Underlying().(*types.Slice); ok {
			if eb, ok := sl.Elem().Underlying().(*types.Basic); ok && eb.Kind() == types.Byte {
				return App("bytes_of", ts, t)
			}
			return App("runes_of", ts, t)
		}
	case strings.HasPrefix(fs, "Sl_") && ts == "String":
		return App("string_of_"+fs, "String", t)
	}
	x.outside = fmt.Sprintf("conversion %s -> %s", from, to)
	return x.freshVar("conv", ts)
}

// runeToString models string(r) for an integer r: one byte below 0x80, the
// two-byte UTF-8 encoding below 0x800 (what string(s[i]) yields for a byte).
func runeToString(r *Term) *Term {
	if r.Kind == KInt {
		return StrT(string(rune(r.I)))
	}
	if r.Kind == KApp && r.Op == "str.to_code" && r.Args[0].Kind == KApp && r.Args[0].Op == "str.at" {
		// string(s[i]): a defined function of the one-character string s[i:i+1]
		return App("byte_str", "String", r.Args[0])
	}
	one := App("str.from_code", "String", r)
	two := Concat(App("str.from_code", "String", Add(IntT(0xC0), App("div", "Int", r, IntT(64)))),
		App("str.from_code", "String", Add(IntT(0x80), App("mod", "Int", r, IntT(64)))))
	return Ite(Cmp("<", r, IntT(0x80)), one, Ite(Cmp("<", r, IntT(0x800)), two, App("utf8_of_rune", "String", r)))
}

func (x *Exec) doSlice(st *State, in *ssa.Slice) {
	fr := st.top()
	w := x.w
	base := x.get(st, in.X)
	var lo, hi *Term
	if in.Low != nil {
		lo = x.mustTerm(x.get(st, in.Low), "slice low")
	}
	if in.High != nil {
		hi = x.mustTerm(x.get(st, in.High), "slice high")
	}
	switch b := base.(type) {
	case *PtrV: // pointer to array: arr[:]
		cur := x.load(st, b, nil, in.Pos())
		if av, ok := cur.(*ArrV); ok {
			if lo == nil && hi == nil {
				// keep engine-level when elements are not SMT values
				allTerm := true
				for _, e := range av.elems {
					if e != nil {
						if _, ok := e.(*Term); !ok {
							allTerm = false
						}
					}
				}
				if !allTerm {
					fr.env[in] = av
					return
				}
				fr.env[in] = x.arrToSlice(av)
				return
			}
			cur = x.arrToSlice(av)
		}
		base = cur
	}
	bt := x.mustTerm(base, "slice operand")
	if bt.Sort == "String" {
		l := lo
		if l == nil {
			l = IntT(0)
		}
		h := hi
		if h == nil {
			h = StrLen(bt)
		}
		x.oblige(st, "safety", "slice-bounds:"+x.srcAt(in.Pos()), []string{"C13"}, And(Cmp("<=", IntT(0), l), Cmp("<=", l, h), Cmp("<=", h, StrLen(bt))), in.Pos())
		fr.env[in] = substr(bt, l, Sub(h, l))
		return
	}
	if !strings.HasPrefix(bt.Sort, "Sl_") {
		x.outside = "slice of " + bt.Sort
		fr.env[in] = x.havocOfType(in.Name(), in.Type())
		return
	}
	if lo == nil && hi == nil {
		fr.env[in] = bt
		return
	}
	l := lo
	if l == nil {
		l = IntT(0)
	}
	h := hi
	if h == nil {
		h = slLen(bt)
	}
	// capacity is not modelled: bound by len (stricter than Go, sound for safety)
	x.oblige(st, "safety", "slice-bounds:"+x.srcAt(in.Pos()), []string{"C13"}, And(Cmp("<=", IntT(0), l), Cmp("<=", l, h), Cmp("<=", h, slLen(bt))), in.Pos())
	if l.Kind == KInt && l.I == 0 {
		fr.env[in] = mkSlice(bt.Sort, slArr(bt), h, False)
		return
	}
	es := elemSortOfSlice(w, bt.Sort)
	na := x.freshVar("subarr", arraySort(es))
	k := VarT("k!q", "Int")
	st.assume(Quant("forall", []*Term{k}, Implies(And(Cmp("<=", IntT(0), k), Cmp("<", k, Sub(h, l))),
		Eq(App("select", es, na, k), App("select", es, slArr(bt), Add(k, l))))))
	fr.env[in] = mkSlice(bt.Sort, na, Sub(h, l), False)
}

func substr(s, off, n *Term) *Term {
	if s.Kind == KStr && off.Kind == KInt && n.Kind == KInt && off.I >= 0 && n.I >= 0 && int(off.I+n.I) <= len(s.S) {
		return StrT(s.S[off.I : off.I+n.I])
	}
	return App("str.substr", "String", s, off, n)
}

func (x *Exec) doTypeAssert(st *State, in *ssa.TypeAssert) {
	fr := st.top()
	w := x.w
	v := x.get(st, in.X)
	if av, ok := v.(*AnyV); ok {
		okv := types.AssignableTo(av.typ, in.AssertedType)
		if in.CommaOk {
			if okv {
				fr.env[in] = &TupleV{vals: []Value{av.v, True}}
			} else {
				fr.env[in] = &TupleV{vals: []Value{w.zero(in.AssertedType), False}}
			}
			return
		}
		if !okv {
			x.oblige(st, "safety", "type-assert:"+x.srcAt(in.Pos()), []string{"C13"}, False, in.Pos())
		}
		fr.env[in] = av.v
		return
	}
	t := x.mustTerm(v, "type assert")
	if t.Sort == "Opaque" && x.w.sortOf(in.AssertedType) == "Opaque" {
		// interface-to-same-interface assertion (method value on an interface): non-nil check
		nn := Not(Eq(t, VarT("opaque_nil", "Opaque")))
		if in.CommaOk {
			fr.env[in] = &TupleV{vals: []Value{t, nn}}
			return
		}
		x.oblige(st, "safety", "nil-iface:"+x.srcAt(in.Pos()), []string{"C13"}, nn, in.Pos())
		fr.env[in] = t
		return
	}
	if t.Sort != "Dyn" {
		x.outside = "type assertion on " + t.Sort
		fr.env[in] = x.havocOfType(in.Name(), in.Type())
		return
	}
	var cond *Term
	var val Value
	if iface, ok := in.AssertedType.Underlying().(*types.Interface); ok {
		var alts []*Term
		for _, n := range w.implementers(iface) {
			alts = append(alts, Is(w.dynCtor[typeKey(n)], t))
		}
		cond = Or(alts...)
		val = t
		if w.sortOf(in.AssertedType) != "Dyn" {
			x.outside = "assert to non-AST interface"
		}
	} else if n, ok := in.AssertedType.(*types.Named); ok {
		cn, ok := w.dynCtor[typeKey(n)]
		if !ok {
			cond = False
			val = w.zero(in.AssertedType)
		} else {
			cond = Is(cn, t)
			val = Sel(ctorByName[cn].Sels[0], t)
		}
	} else {
		x.outside = "type assertion to " + in.AssertedType.String()
		fr.env[in] = x.havocOfType(in.Name(), in.Type())
		return
	}
	if in.CommaOk {
		fr.env[in] = &TupleV{vals: []Value{val, cond}}
		return
	}
	x.oblige(st, "safety", "type-assert:"+x.srcAt(in.Pos()), []string{"C13"}, cond, in.Pos())
	st.assume(cond)
	fr.env[in] = val
}

// ---------------------------------------------------------------- loops

type Loop struct {
	header *ssa.BasicBlock
	blocks map[*ssa.BasicBlock]bool
	ord    int
}

type LoopInfo struct {
	byHeader map[*ssa.BasicBlock]*Loop
	loops    []*Loop
}

var loopInfoCache = map[*ssa.Function]*LoopInfo{}

func loopInfoFor(fn *ssa.Function) *LoopInfo {
	if li, ok := loopInfoCache[fn]; ok {
		return li
	}
	li := &LoopInfo{byHeader: map[*ssa.BasicBlock]*Loop{}}
	for _, b := range fn.Blocks {
		for _, s := range b.Succs {
			if s.Dominates(b) { // back edge b -> s
				lp := li.byHeader[s]
				if lp == nil {
					lp = &Loop{header: s, blocks: map[*ssa.BasicBlock]bool{s: true}}
					li.byHeader[s] = lp
					li.loops = append(li.loops, lp)
				}
				// natural loop body: nodes that reach b without passing s
				stack := []*ssa.BasicBlock{b}
				for len(stack) > 0 {
					n := stack[len(stack)-1]
					stack = stack[:len(stack)-1]
					if lp.blocks[n] {
						continue
					}
					lp.blocks[n] = true
					stack = append(stack, n.Preds...)
				}
			}
		}
	}
	// ordinal by source position of the header (first instruction with a position), fallback block index
	sort.Slice(li.loops, func(i, j int) bool {
		pi, pj := loopPos(li.loops[i]), loopPos(li.loops[j])
		if pi != pj {
			return pi < pj
		}
		return li.loops[i].header.Index < li.loops[j].header.Index
	})
	for i, l := range li.loops {
		l.ord = i + 1
	}
	if len(li.loops) == 0 {
		li = nil
	}
	loopInfoCache[fn] = li
	return li
}

func loopPos(l *Loop) token.Pos {
	best := token.NoPos
	for b := range l.blocks {
		for _, in := range b.Instrs {
			if p := in.Pos(); p.IsValid() && (best == token.NoPos || p < best) {
				best = p
			}
		}
	}
	return best
}

const unrollCap = 40

// implicitUnrollCap: loops without annotations whose trip count is a known constant are unrolled
// only up to this many iterations; longer ones are cut like any other loop.
const implicitUnrollCap = 12

// handleLoopHead returns false when the path ends here (back edge at a cut).
func (x *Exec) handleLoopHead(st *State, fr *Frame, lp *Loop, b, pred *ssa.BasicBlock) bool {
	back := pred != nil && b.Dominates(pred) && lp.blocks[pred]
	var clauses []*Clause
	var variants []*Clause // decreases clauses: integer expressions that get smaller with every iteration and never go below zero
	unroll := false
	if fc := x.w.contracts[funcKey(fr.fn)]; fc != nil {
		for _, c := range x.w.loopClauses(fr.fn, fc, lp) {
			if c.Kind == "unroll" {
				unroll = true
			} else if c.Kind == "decreases" {
				variants = append(variants, c)
			} else if c.Kind != "exit" {
				clauses = append(clauses, c)
			}
		}
	}
	userClauses := len(clauses) + len(variants)
	if cps := x.w.commonPostFor(st.frames[0].fn); len(cps) > 0 && !x.pureMode && x.specEval == 0 {
		// type-wide postconditions relate the current state to the entry state: valid at every loop head
		clauses = append(clauses, cps...)
	}
	if invs, _ := x.w.recvInvFor(fr.fn); len(invs) > 0 {
		// receiver invariants hold at every loop head of a method
		clauses = append(clauses, invs...)
	}
	if unroll || (userClauses == 0 && x.concreteLoop(st, fr, lp, b, pred)) {
		fr.iter[b]++
		if fr.iter[b] > unrollCap {
			x.outside = "unroll cap exceeded in " + fr.fn.Name()
			return false
		}
		return true
	}
	if x.pureMode {
		x.pureFail = "loop"
		return false
	}
	if back {
		// invariant preserved
		x.setPhisFromPred(st, fr, b, pred)
		for _, c := range clauses {
			g, err := x.evalClauseInFrame(st, fr, c, lp)
			if err != nil {
				x.contractError(c, err)
				continue
			}
			x.oblige(st, "invariant-preserved", loopOblName(lp, c), c.Props, g, b.Instrs[0].Pos())
		}
		for _, g := range x.autoInvariants(st, fr, lp, b) {
			x.oblige(st, "invariant-preserved", fmt.Sprintf("loop%d:auto:%s", lp.ord, g.name), []string{"C13"}, g.t, token.NoPos)
		}
		for i, c := range variants {
			if i >= len(fr.decAt[b]) || fr.decAt[b][i] == nil {
				continue
			}
			v1, err := x.evalClauseInFrame(st, fr, c, lp)
			if err != nil {
				x.contractError(c, err)
				continue
			}
			v0 := fr.decAt[b][i]
			// termination: the variant was not negative when the iteration began and is smaller now
			x.oblige(st, "decreases", loopOblName(lp, c), c.Props, And(Cmp(">=", v0, IntT(0)), Cmp("<", v1, v0)), b.Instrs[0].Pos())
		}
		return false
	}
	// entry: establish, havoc, assume
	x.setPhisFromPred(st, fr, b, pred)
	for _, c := range clauses {
		g, err := x.evalClauseInFrame(st, fr, c, lp)
		if err != nil {
			x.contractError(c, err)
			continue
		}
		x.oblige(st, "invariant-entry", loopOblName(lp, c), c.Props, g, b.Instrs[0].Pos())
	}
	auto0 := x.autoInvariants(st, fr, lp, b)
	for _, g := range auto0 {
		x.oblige(st, "invariant-entry", fmt.Sprintf("loop%d:auto:%s", lp.ord, g.name), []string{"C13"}, g.t, token.NoPos)
	}
	x.havocLoop(st, fr, lp, b)
	fr.cutAt[b] = true
	for _, c := range clauses {
		g, err := x.evalClauseInFrame(st, fr, c, lp)
		if err != nil {
			continue
		}
		st.assume(g)
	}
	for _, g := range x.autoInvariants(st, fr, lp, b) {
		st.assume(g.t)
	}
	if len(variants) > 0 {
		if fr.decAt == nil {
			fr.decAt = map[*ssa.BasicBlock][]*Term{}
		}
		vals := make([]*Term, len(variants))
		for i, c := range variants {
			v, err := x.evalClauseInFrame(st, fr, c, lp)
			if err != nil {
				x.contractError(c, err)
				continue
			}
			vals[i] = v
		}
		fr.decAt[b] = vals
	}
	return true
}

// boxIfPtr converts a handle to a non-handle struct into an immutable boxed value
// when it flows into a phi (pointer-valued loop variables such as list cursors).
func (x *Exec) boxIfPtr(st *State, v Value, t types.Type) Value {
	pv, ok := v.(*PtrV)
	if !ok || len(pv.path) != 0 {
		return v
	}
	named, ok := pv.cell.typ.(*types.Named)
	if !ok || isHandleType(named) {
		return v
	}
	if _, isSt := named.Underlying().(*types.Struct); !isSt {
		return v
	}
	ps := x.w.sortOf(types.NewPointer(named))
	return Mk("box_"+ps, x.mustTerm(x.load(st, pv, nil, token.NoPos), "boxed pointee"))
}

func (x *Exec) setPhisFromPred(st *State, fr *Frame, b, pred *ssa.BasicBlock) {
	var vals []Value
	var phis []*ssa.Phi
	for _, ins := range b.Instrs {
		phi, ok := ins.(*ssa.Phi)
		if !ok {
			break
		}
		for i, p := range b.Preds {
			if p == pred {
				vals = append(vals, x.boxIfPtr(st, x.get(st, phi.Edges[i]), phi.Type()))
				phis = append(phis, phi)
				break
			}
		}
	}
	for i, p := range phis {
		fr.env[p] = vals[i]
	}
}

// concreteLoop: the loop condition at the header folds to a constant on this path
// (e.g. ranging over a literal), so the loop can simply be executed.
func (x *Exec) concreteLoop(st *State, fr *Frame, lp *Loop, b, pred *ssa.BasicBlock) bool {
	// simulate: phis from pred, then evaluate header instructions up to the If without side effects
	last, ok := b.Instrs[len(b.Instrs)-1].(*ssa.If)
	if !ok {
		return false
	}
	if lp.blocks[b.Succs[0]] && lp.blocks[b.Succs[1]] {
		return false // the header test is not the loop exit
	}
	if _, isConst := last.Cond.(*ssa.Const); isConst {
		return false // `for { ... }`: no bound to unroll to
	}
	tmp := map[ssa.Value]Value{}
	lookup := func(v ssa.Value) Value {
		if t, ok := tmp[v]; ok {
			return t
		}
		if c, ok := v.(*ssa.Const); ok {
			return x.constVal(c)
		}
		if t, ok := fr.env[v]; ok {
			return t
		}
		return nil
	}
	for _, ins := range b.Instrs {
		switch in := ins.(type) {
		case *ssa.Phi:
			for i, p := range b.Preds {
				if p == pred {
					tmp[in] = lookup(in.Edges[i])
				}
			}
		case *ssa.BinOp:
			a, bb := lookup(in.X), lookup(in.Y)
			at, aok := a.(*Term)
			bt, bok := bb.(*Term)
			if !aok || !bok {
				return false
			}
			switch in.Op {
			case token.ADD:
				if at.Sort != "Int" {
					return false
				}
				tmp[in] = Add(at, bt)
			case token.SUB:
				tmp[in] = Sub(at, bt)
			case token.LSS, token.LEQ, token.GTR, token.GEQ:
				if at.Sort != "Int" {
					return false
				}
				if (in.Op == token.LSS || in.Op == token.LEQ) && at.Kind == KInt && bt.Kind == KInt && bt.I-at.I > implicitUnrollCap && fr.iter[b] == 0 {
					// a long table: one cut with invariants instead of dozens of unrolled iterations
					return false
				}
				tmp[in] = Cmp(in.Op.String(), at, bt)
			case token.EQL:
				tmp[in] = Eq(at, bt)
			case token.NEQ:
				tmp[in] = Neq(at, bt)
			default:
				return false
			}
		case *ssa.Call:
			if bi, ok := in.Call.Value.(*ssa.Builtin); ok && bi.Name() == "len" {
				a := lookup(in.Call.Args[0])
				switch av := a.(type) {
				case *Term:
					if av.Sort == "String" {
						tmp[in] = StrLen(av)
					} else if strings.HasPrefix(av.Sort, "Sl_") {
						tmp[in] = slLen(av)
					} else {
						return false
					}
				case *ArrV:
					tmp[in] = IntT(int64(len(av.elems)))
				default:
					return false
				}
				continue
			}
			return false
		case *ssa.If:
		case *ssa.DebugRef:
		default:
			return false
		}
	}
	c, ok := lookup(last.Cond).(*Term)
	return ok && c.Kind == KBool
}

type autoInv struct {
	name string
	t    *Term
}

// autoInvariants: for a header phi that starts at a constant c and is only
// ever incremented by a positive constant, phi >= c.
func (x *Exec) autoInvariants(st *State, fr *Frame, lp *Loop, b *ssa.BasicBlock) []autoInv {
	var out []autoInv
	for _, ins := range b.Instrs {
		phi, ok := ins.(*ssa.Phi)
		if !ok {
			break
		}
		if bt, ok := phi.Type().Underlying().(*types.Basic); !ok || bt.Info()&types.IsInteger == 0 {
			continue
		}
		var init *ssa.Const
		var initAny ssa.Value
		okShape := true
		dir := 0 // +1: only ever incremented on the back edges, -1: only ever decremented
		for i, p := range b.Preds {
			e := phi.Edges[i]
			if lp.blocks[p] {
				// back edge: must be phi +/- positive const (possibly via one BinOp)
				bo, ok := e.(*ssa.BinOp)
				if !ok || (bo.Op != token.ADD && bo.Op != token.SUB) {
					okShape = false
					break
				}
				c, ok := bo.Y.(*ssa.Const)
				if !ok || bo.X != ssa.Value(phi) {
					okShape = false
					break
				}
				v, _ := constant.Int64Val(c.Value)
				if bo.Op == token.SUB {
					v = -v
				}
				d := 1
				if v < 0 {
					d = -1
				}
				if v == 0 || (dir != 0 && dir != d) {
					okShape = false
				}
				dir = d
			} else {
				c, ok := e.(*ssa.Const)
				if !ok {
					// a loop-invariant start value computed before the loop
					if ins, isIns := e.(ssa.Instruction); isIns && lp.blocks[ins.Block()] {
						okShape = false
						break
					}
					initAny = e
					continue
				}
				init = c
			}
		}
		if okShape && init == nil && initAny != nil {
			cur, ok1 := fr.env[phi].(*Term)
			iv, ok2 := fr.env[initAny].(*Term)
			if ok1 && ok2 && iv.Sort == "Int" && dir > 0 {
				out = append(out, autoInv{name: phiName(phi), t: Cmp(">=", cur, iv)})
			} else if ok1 && ok2 && iv.Sort == "Int" && dir < 0 {
				out = append(out, autoInv{name: phiName(phi) + "-upper", t: Cmp("<=", cur, iv)})
			}
			continue
		}
		if okShape && init != nil && dir < 0 {
			if cur, ok := fr.env[phi].(*Term); ok {
				iv, _ := constant.Int64Val(init.Value)
				out = append(out, autoInv{name: phiName(phi) + "-upper", t: Cmp("<=", cur, IntT(iv))})
			}
			continue
		}
		if !okShape || init == nil {
			continue
		}
		cur, ok := fr.env[phi].(*Term)
		if !ok {
			continue
		}
		iv, _ := constant.Int64Val(init.Value)
		out = append(out, autoInv{name: phiName(phi), t: Cmp(">=", cur, IntT(iv))})
		// range-index shape: header tests (phi + c) < L with L defined outside the loop
		if last, ok := b.Instrs[len(b.Instrs)-1].(*ssa.If); ok {
			if cmp, ok := last.Cond.(*ssa.BinOp); ok && cmp.Op == token.LSS {
				if inc, ok := cmp.X.(*ssa.BinOp); ok && inc.Op == token.ADD && inc.X == ssa.Value(phi) {
					if c, ok := inc.Y.(*ssa.Const); ok {
						cv, _ := constant.Int64Val(c.Value)
						limitOutside := true
						if li, ok := cmp.Y.(ssa.Instruction); ok && lp.blocks[li.Block()] {
							limitOutside = false
						}
						backIsInc := true
						for i, p := range b.Preds {
							if lp.blocks[p] && phi.Edges[i] != ssa.Value(inc) {
								backIsInc = false
							}
						}
						if lim, ok := fr.env[cmp.Y].(*Term); ok && limitOutside && backIsInc && cv > 0 && lp.blocks[b.Succs[0]] {
							out = append(out, autoInv{name: phiName(phi) + "-upper", t: Cmp("<", cur, lim)})
						}
					}
				}
			}
		}
	}
	return out
}

func phiName(p *ssa.Phi) string {
	if p.Comment != "" {
		return p.Comment
	}
	return p.Name()
}

// havocLoop replaces everything the loop may modify by fresh symbols.
func (x *Exec) havocLoop(st *State, fr *Frame, lp *Loop, b *ssa.BasicBlock) {
	for _, ins := range b.Instrs {
		phi, ok := ins.(*ssa.Phi)
		if !ok {
			break
		}
		fr.env[phi] = x.havocLike(fr.env[phi], phiName(phi), phi.Type())
		if t, ok := fr.env[phi].(*Term); ok {
			for _, f := range x.typeFacts(t, phi.Type(), 0) {
				st.assume(f)
			}
		}
	}
	eff := x.w.loopEffects(fr.fn, lp)
	kinds := map[string]bool{}
	if x.w.eventKindsIn(fr.fn, lp.blocks, 0, kinds) {
		x.loopKinds = kinds
		if os.Getenv("GOVC_DEBUG") != "" {
			fmt.Fprintf(os.Stderr, "havocLoop %s: kinds %v\n", fr.fn.Name(), kinds)
		}
	} else {
		if os.Getenv("GOVC_DEBUG") != "" {
			fmt.Fprintf(os.Stderr, "havocLoop %s: imprecise\n", fr.fn.Name())
		}
		x.loopKinds = nil
	}
	if x.loopKinds != nil && x.loopKinds["strings_Join"] && x.rootMentions("strings_Join") && !eff.events {
		// Join calls are logged for this function (its contract talks about them)
		e2 := *eff
		e2.events = true
		eff = &e2
	}
	x.applyHavoc(st, fr, eff, "loop")
	x.loopKinds = nil
}

func (x *Exec) havocLike(old Value, base string, t types.Type) Value {
	switch o := old.(type) {
	case *PtrV, *ClosureV, *ParamFuncV:
		_ = o
		return old // pointer-valued loop variables must be loop-invariant handles; checked by outside-subset below
	}
	v := x.havocOfType(base, t)
	return v
}

func (x *Exec) contractError(c *Clause, err error) {
	msg := fmt.Sprintf("CONTRACT-ERROR %s:%d %s: %v", shortFile(c.File), c.Line, c.Label, err)
	for _, n := range x.notes {
		if n == msg {
			return
		}
	}
	x.notes = append(x.notes, msg)
	x.contractErrs++
}

func (x *Exec) srcAt(pos token.Pos) string {
	return x.w.srcText(pos)
}

// simplifyUnder replaces boolean atoms known from the path condition by their
// truth value inside t and re-folds.  Purely an optimisation.
func simplifyUnder(t *Term, pc *PC) *Term {
	facts := map[string]*Term{}
	var atoms []*Term
	var flatten func(t *Term, depth int)
	flatten = func(t *Term, depth int) {
		if t.Kind == KApp && t.Op == "and" && depth < 3 {
			for _, c := range t.Args {
				flatten(c, depth+1)
			}
			return
		}
		atoms = append(atoms, t)
	}
	for q := pc; q != nil; q = q.parent {
		flatten(q.t, 0)
	}
	for _, a := range atoms {
		val := True
		if a.Kind == KApp && a.Op == "not" {
			a = a.Args[0]
			val = False
		}
		if a.Kind == KQuant || a.Kind == KBool {
			continue
		}
		if len(a.String()) > 300 {
			continue
		}
		if _, ok := facts[a.String()]; !ok {
			facts[a.String()] = val
		}
		// equalities with constants: x = c
		if val == True && a.Kind == KApp && a.Op == "=" && len(a.Args) == 2 && a.Args[1].isConst() && !a.Args[0].isConst() {
			if _, ok := facts[a.Args[0].String()]; !ok {
				facts[a.Args[0].String()] = a.Args[1]
			}
		}
	}
	if len(facts) == 0 {
		return t
	}
	return replaceAtoms(t, facts)
}

func replaceAtoms(t *Term, facts map[string]*Term) *Term {
	if t.Kind == KVar || t.Kind == KApp {
		if v, ok := facts[t.String()]; ok && v.Sort == t.Sort {
			return v
		}
	}
	switch t.Kind {
	case KApp:
		args := make([]*Term, len(t.Args))
		changed := false
		for i, a := range t.Args {
			args[i] = replaceAtoms(a, facts)
			if args[i] != a {
				changed = true
			}
		}
		if !changed {
			return t
		}
		return rebuild(t.Op, t.Sort, args)
	case KQuant:
		b := replaceAtoms(t.Args[0], facts)
		if b == t.Args[0] {
			return t
		}
		return Quant(t.Op, t.Bound, b)
	}
	return t
}


// loopClauses: the clauses of a loop: those given by ordinal plus those naming the loop by a piece
// of its header text.  Text keys are resolved once per function against its syntax tree: the
// k-th loop statement in source order is the k-th natural loop; a key must occur in the header
// of exactly one loop.
func (w *World) loopClauses(fn *ssa.Function, fc *FuncContract, lp *Loop) []*Clause {
	if len(fc.LoopsByText) > 0 && !fc.textResolved {
		fc.textResolved = true
		heads, headPos := loopHeaderTexts(fn)
		li := loopInfoFor(fn)
		if os.Getenv("GOVC_DEBUG") != "" && li != nil {
			for _, l := range li.loops {
				fmt.Fprintf(os.Stderr, "loop %d of %s: header block %d at %s\n", l.ord, fn.Name(), l.header.Index, w.prog.Fset.Position(loopPos(l)))
			}
			fmt.Fprintf(os.Stderr, "headers: %v\n", heads)
		}
		keys := make([]string, 0, len(fc.LoopsByText))
		for k := range fc.LoopsByText {
			keys = append(keys, k)
		}
		sort.Strings(keys)
		for _, key := range keys {
			cs := fc.LoopsByText[key]
			match := 0
			if li != nil && len(heads) == len(li.loops) {
				// `text#k`: the k-th loop (in source order) whose header is exactly text
				want, nth := key, 0
				if i := strings.LastIndex(key, "#"); i > 0 {
					if n, err := strconv.Atoi(key[i+1:]); err == nil {
						want, nth = key[:i], n
					}
				}
				var exact []int
				for i, h := range heads {
					if h == want {
						exact = append(exact, i+1)
					}
				}
				// `#k` counts in source order
				sort.Slice(exact, func(a, b int) bool { return headPos[exact[a]-1] < headPos[exact[b]-1] })
				switch {
				case nth > 0 && nth <= len(exact):
					match = exact[nth-1]
				case nth == 0 && len(exact) == 1:
					match = exact[0]
				case nth == 0 && len(exact) == 0:
					for i, h := range heads {
						if strings.Contains(h, key) {
							if match != 0 {
								match = -1
								break
							}
							match = i + 1
						}
					}
				case nth == 0:
					match = -1
				}
			}
			if match <= 0 {
				if li != nil {
					fmt.Printf("  (loops in SSA: %d, loop statements: %d)\n", len(li.loops), len(heads))
				}
				fmt.Printf("CONTRACT-ERROR %s:%d loop @%q of %s: names %s\n", shortFile(cs[0].File), cs[0].Line, key, fn.Name(),
					map[bool]string{true: "more than one loop", false: "no loop (headers: " + strings.Join(heads, " | ") + ")"}[match < 0])
				continue
			}
			for _, c := range cs {
				c.Loop = match
				fc.Loops[match] = append(fc.Loops[match], c)
			}
		}
	}
	return fc.Loops[lp.ord]
}

// loopHeaderTexts: for every natural loop of fn (in ordinal order) the header of the for / range
// statement it comes from: the innermost loop statement that contains the first positioned
// instruction of the loop (phis and debug records aside).  Nil if some loop cannot be placed or
// two loops land on the same statement.
func loopHeaderTexts(fn *ssa.Function) ([]string, []token.Pos) {
	syn := fn.Syntax()
	li := loopInfoFor(fn)
	if syn == nil || li == nil {
		return nil, nil
	}
	var body *ast.BlockStmt
	switch n := syn.(type) {
	case *ast.FuncDecl:
		body = n.Body
	case *ast.FuncLit:
		body = n.Body
	}
	if body == nil {
		return nil, nil
	}
	type astLoop struct {
		pos, end token.Pos
		text     string
	}
	var loops []astLoop
	ast.Inspect(body, func(n ast.Node) bool {
		switch s := n.(type) {
		case *ast.FuncLit:
			return false
		case *ast.RangeStmt:
			loops = append(loops, astLoop{s.Pos(), s.End(), "range " + types.ExprString(s.X)})
		case *ast.ForStmt:
			h := "for"
			if s.Cond != nil {
				h += " " + types.ExprString(s.Cond)
			}
			loops = append(loops, astLoop{s.Pos(), s.End(), h})
		}
		return true
	})
	out := make([]string, len(li.loops))
	outPos := make([]token.Pos, len(li.loops))
	used := map[int]bool{}
	for i, l := range li.loops {
		first := token.NoPos
		for b := range l.blocks {
			for _, in := range b.Instrs {
				switch in.(type) {
				case *ssa.Phi, *ssa.DebugRef:
					continue
				}
				if p := in.Pos(); p.IsValid() && (first == token.NoPos || p < first) {
					first = p
				}
			}
		}
		best := -1
		for j, al := range loops {
			if al.pos <= first && first < al.end && (best < 0 || al.pos >= loops[best].pos) {
				best = j
			}
		}
		if best < 0 || used[best] {
			return nil, nil
		}
		used[best] = true
		out[i] = loops[best].text
		outPos[i] = loops[best].pos
	}
	return out, outPos
}

// loopOblName: a loop clause's obligation is named by the loop's ordinal, or by its header key
// when the clause names the loop that way (stable when other loops come and go).
func loopOblName(lp *Loop, c *Clause) string {
	if c.LoopKey != "" {
		return "loop@" + strings.ReplaceAll(c.LoopKey, " ", "_") + ":" + c.Label
	}
	return fmt.Sprintf("loop%d:%s", lp.ord, c.Label)
}
