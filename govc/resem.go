package main

// Exact semantics for the handful of constant regular expressions the lexer uses.
//
// Go's regexp engine is not modelled; instead each pattern the lexer compiles is matched, by
// *bounded equivalence testing against the real engine*, with one of the reference semantics
// below (a Go function used for the test and an SMT term builder used in the proofs).  A pattern
// that behaves like none of them on the corpus stays uninterpreted (shape axioms only), so a
// changed pattern that changes behaviour loses the facts the lexer's contracts need, while a
// rewritten but equivalent pattern keeps them.  The corpus and the outcome are reported in the
// evidence (assumption "regexp ... has the semantics ... on N strings").

import (
	"fmt"
	"regexp"
	"strings"
)

type reSem struct {
	name  string
	kind  string // "submatch": anchored find with groups; "match": MatchString on a character class
	ngrp  int    // number of groups besides the whole match
	ref   func(s string) (bool, []string)
	build func(s *Term) (*Term, []*Term)
}

func isWordByte(c byte) bool {
	return c == '_' || (c >= '0' && c <= '9') || (c >= 'a' && c <= 'z') || (c >= 'A' && c <= 'Z')
}

func codeAt(s *Term, i *Term) *Term {
	return App("str.to_code", "Int", App("str.at", "String", s, i))
}

func inRange(c *Term, lo, hi int64) *Term {
	return And(Cmp(">=", c, IntT(lo)), Cmp("<=", c, IntT(hi)))
}

func wordCode(c *Term) *Term {
	return Or(Eq(c, IntT('_')), inRange(c, '0', '9'), inRange(c, 'a', 'z'), inRange(c, 'A', 'Z'))
}

func classRe(withDigits bool) string {
	parts := []string{`(re.range "a" "z")`, `(re.range "A" "Z")`, `(str.to_re "_")`}
	if withDigits {
		parts = append(parts, `(re.range "0" "9")`)
	}
	return "(re.union " + strings.Join(parts, " ") + ")"
}

var reSems = []*reSem{
	{
		name: "block comment: from /* to the FIRST */ (group 1: the text between)", kind: "submatch", ngrp: 1,
		ref: func(s string) (bool, []string) {
			if !strings.HasPrefix(s, "/*") {
				return false, nil
			}
			idx := strings.Index(s[2:], "*/")
			if idx < 0 {
				return false, nil
			}
			return true, []string{s[:idx+4], s[2 : 2+idx]}
		},
		build: func(s *Term) (*Term, []*Term) {
			idx := App("str.indexof", "Int", s, StrT("*/"), IntT(2))
			m := And(App("str.prefixof", "Bool", StrT("/*"), s), Cmp(">=", idx, IntT(0)))
			return m, []*Term{substr(s, IntT(0), Add(idx, IntT(2))), substr(s, IntT(2), Sub(idx, IntT(2)))}
		},
	},
	{
		name: "line comment: from // to the end of the line (group 1: the text after //)", kind: "submatch", ngrp: 1,
		ref: func(s string) (bool, []string) {
			if !strings.HasPrefix(s, "//") {
				return false, nil
			}
			e := strings.Index(s, "\n")
			if e < 0 {
				e = len(s)
			}
			return true, []string{s[:e], s[2:e]}
		},
		build: func(s *Term) (*Term, []*Term) {
			nl := App("str.indexof", "Int", s, StrT("\n"), IntT(0))
			e := Ite(Cmp("<", nl, IntT(0)), StrLen(s), nl)
			m := App("str.prefixof", "Bool", StrT("//"), s)
			return m, []*Term{substr(s, IntT(0), e), substr(s, IntT(2), Sub(e, IntT(2)))}
		},
	},
	{
		name: "the word true or false, not followed by a letter, digit or underscore (group 1: the word)", kind: "submatch", ngrp: 1,
		ref: func(s string) (bool, []string) {
			for _, w := range []string{"true", "false"} {
				if strings.HasPrefix(s, w) && (len(s) == len(w) || !isWordByte(s[len(w)])) {
					return true, []string{w, w}
				}
			}
			return false, nil
		},
		build: func(s *Term) (*Term, []*Term) {
			one := func(w string) *Term {
				n := IntT(int64(len(w)))
				return And(App("str.prefixof", "Bool", StrT(w), s), Or(Eq(StrLen(s), n), Not(wordCode(codeAt(s, n)))))
			}
			t, f := one("true"), one("false")
			w := Ite(t, StrT("true"), StrT("false"))
			return Or(t, f), []*Term{w, w}
		},
	},
	{
		name: "contains a letter or an underscore", kind: "match",
		ref: func(s string) (bool, []string) {
			for i := 0; i < len(s); i++ {
				if isWordByte(s[i]) && !(s[i] >= '0' && s[i] <= '9') {
					return true, nil
				}
			}
			return false, nil
		},
		build: func(s *Term) (*Term, []*Term) {
			c := App("str.to_code", "Int", s)
			letter := Or(Eq(c, IntT('_')), inRange(c, 'a', 'z'), inRange(c, 'A', 'Z'))
			// strings of at most one byte (what the lexer asks about) by their code, longer ones by membership
			return Ite(Cmp("<=", StrLen(s), IntT(1)), And(Eq(StrLen(s), IntT(1)), letter),
				App("str.in_re", "Bool", s, RawT("(re.++ re.all "+classRe(false)+" re.all)", "RegLan"))), nil
		},
	},
	{
		name: "contains a letter, a digit or an underscore", kind: "match",
		ref: func(s string) (bool, []string) {
			for i := 0; i < len(s); i++ {
				if isWordByte(s[i]) {
					return true, nil
				}
			}
			return false, nil
		},
		build: func(s *Term) (*Term, []*Term) {
			c := App("str.to_code", "Int", s)
			return Ite(Cmp("<=", StrLen(s), IntT(1)), And(Eq(StrLen(s), IntT(1)), wordCode(c)),
				App("str.in_re", "Bool", s, RawT("(re.++ re.all "+classRe(true)+" re.all)", "RegLan"))), nil
		},
	},
}

// reCorpus: the strings on which a pattern and a reference semantics must agree.
var reCorpusCache []string

func reCorpus() []string {
	if reCorpusCache != nil {
		return reCorpusCache
	}
	alpha := []string{"/", "*", "a", "Z", "_", "7", "\n", " ", "t", "\xc3"}
	var small []string // all strings of length <= 3
	small = append(small, "")
	frontier := []string{""}
	for l := 0; l < 3; l++ {
		var next []string
		for _, p := range frontier {
			for _, c := range alpha {
				next = append(next, p+c)
			}
		}
		small = append(small, next...)
		frontier = next
	}
	heads := []string{"", "/*", "//", "/**", "/*/", "/* */", "/**/", "true", "false", "tru", "fals", "truefalse", "/*a*/b/*c*/", "//a\n//b"}
	seen := map[string]bool{}
	var out []string
	for _, h := range heads {
		for _, t := range small {
			s := h + t
			if !seen[s] {
				seen[s] = true
				out = append(out, s)
			}
		}
	}
	// all strings of length 4 and 5 over the comment alphabet
	ca := []string{"/", "*", "a", "\n"}
	frontier = []string{""}
	for l := 0; l < 6; l++ {
		var next []string
		for _, p := range frontier {
			for _, c := range ca {
				next = append(next, p+c)
			}
		}
		for _, s := range next {
			if !seen[s] {
				seen[s] = true
				out = append(out, s)
			}
		}
		frontier = next
	}
	reCorpusCache = out
	return out
}

type reSemChoice struct {
	sem  *reSem
	note string
}

var reSemCache = map[string]*reSemChoice{}

// semanticsOf finds the reference semantics a pattern agrees with on the whole corpus (nil: none).
func semanticsOf(pat string) *reSemChoice {
	if c, ok := reSemCache[pat]; ok {
		return c
	}
	choice := &reSemChoice{}
	reSemCache[pat] = choice
	rx, err := regexp.Compile(pat)
	if err != nil {
		return choice
	}
	corpus := reCorpus()
	for _, sem := range reSems {
		ok := true
		for _, s := range corpus {
			want, groups := sem.ref(s)
			if sem.kind == "match" {
				if rx.MatchString(s) != want {
					ok = false
					break
				}
				continue
			}
			got := rx.FindStringSubmatch(s)
			if (got != nil) != want {
				ok = false
				break
			}
			if got == nil {
				continue
			}
			if got[0] != groups[0] || rx.NumSubexp() != sem.ngrp {
				ok = false
				break
			}
			for g := 1; g <= sem.ngrp; g++ {
				if got[g] != groups[g] {
					ok = false
				}
			}
			if !ok {
				break
			}
		}
		if ok {
			choice.sem = sem
			choice.note = fmt.Sprintf("regexp %q behaves as '%s' on all %d corpus strings (bounded equivalence with Go's regexp engine, not a proof about the engine)", pat, sem.name, len(corpus))
			return choice
		}
	}
	return choice
}
