package main

// Translation of contract expressions (Go syntax) into terms.

import (
	"os"
	"fmt"
	"go/ast"
	"go/constant"
	"go/token"
	"go/types"
	"strconv"
	"strings"

	"golang.org/x/tools/go/ssa"
)

type SpecEnv struct {
	x     *Exec
	st    *State // state in which plain expressions are evaluated
	old   *State // state for old(...)
	fn    *ssa.Function
	vars  map[string]Value
	bound map[string]*Term
	loop  *Loop
	frame *Frame
	atBlock *ssa.BasicBlock
	inOld bool
}

func (x *Exec) newSpecEnv(st, old *State, fn *ssa.Function) *SpecEnv {
	return &SpecEnv{x: x, st: st, old: old, fn: fn, vars: map[string]Value{}, bound: map[string]*Term{}}
}

func (e *SpecEnv) bindRootParams(fr *Frame) {
	for _, p := range fr.fn.Params {
		e.vars[p.Name()] = fr.env[p]
	}
	for _, p := range fr.fn.FreeVars {
		e.vars[p.Name()] = fr.env[p]
	}
}

func (x *Exec) specEnvForCall(st, pre *State, fn *ssa.Function, args, binds []Value) *SpecEnv {
	env := x.newSpecEnv(st, pre, fn)
	for i, p := range fn.Params {
		if i < len(args) {
			env.vars[p.Name()] = args[i]
		}
	}
	for i, p := range fn.FreeVars {
		if i < len(binds) {
			env.vars[p.Name()] = binds[i]
		}
	}
	return env
}

func (e *SpecEnv) setResults(fn *ssa.Function, results []Value) {
	res := fn.Signature.Results()
	for i, r := range results {
		e.vars["result"+strconv.Itoa(i)] = r
		if n := res.At(i).Name(); n != "" && n != "_" {
			e.vars[n] = r
		}
	}
	if len(results) > 0 {
		e.vars["result"] = results[0]
		last := res.At(len(results) - 1).Type()
		if last.String() == "error" {
			e.vars["err"] = results[len(results)-1]
		}
	}
}

func (x *Exec) evalClauseInFrame(st *State, fr *Frame, c *Clause, lp *Loop) (*Term, error) {
	if c.Kind == "commonpost" {
		// relative to the entry of the function under verification, whatever frame the loop is in
		root := st.frames[0]
		env := x.newSpecEnv(st, st.old, root.fn)
		env.bindRootParams(root)
		if st.old == nil {
			env.old = st
		}
		return env.evalBool(c.Expr)
	}
	env := x.newSpecEnv(st, st.old, fr.fn)
	env.bindRootParams(fr)
	env.loop = lp
	env.frame = fr
	if st.old == nil {
		env.old = st
	}
	if c.Kind == "recvinv" && len(fr.fn.Params) > 0 {
		env.vars[c.Param] = fr.env[fr.fn.Params[0]]
	}
	if !fr.root && c.Kind != "commonpost" {
		// a loop inside an inlined callee: old(...) is not meaningful there
		env.old = st
	}
	if c.Kind == "decreases" {
		t, err := env.evalTerm(c.Expr)
		if err == nil && (t == nil || t.Sort != "Int") {
			return nil, fmt.Errorf("a decreases clause needs an integer expression")
		}
		return t, err
	}
	return env.evalBool(c.Expr)
}

func mentionsEvents(e ast.Expr) bool {
	found := false
	ast.Inspect(e, func(n ast.Node) bool {
		if c, ok := n.(*ast.CallExpr); ok {
			if id, ok := c.Fun.(*ast.Ident); ok {
				switch id.Name {
				case "calls", "arg", "res", "seq":
					found = true
				}
			}
		}
		return true
	})
	return found
}

func (e *SpecEnv) evalBool(ex ast.Expr) (*Term, error) {
	v, err := e.eval(ex)
	if err != nil {
		return nil, err
	}
	t := e.x.term(v)
	if t == nil || t.Sort != "Bool" {
		return nil, fmt.Errorf("clause is not boolean")
	}
	return t, nil
}

func (e *SpecEnv) cur() *State {
	if e.inOld {
		return e.old
	}
	return e.st
}

func (e *SpecEnv) evalTerm(ex ast.Expr) (*Term, error) {
	v, err := e.eval(ex)
	if err != nil {
		return nil, err
	}
	// auto-deref pointers to cells
	if p, ok := v.(*PtrV); ok {
		v = e.x.load(e.cur(), p, nil, token.NoPos)
	}
	t := e.x.term(v)
	if t == nil {
		return nil, fmt.Errorf("expression %s has no term value (%T)", exprString(ex), v)
	}
	return t, nil
}

func exprString(ex ast.Expr) string {
	return types.ExprString(ex)
}

func (e *SpecEnv) eval(ex ast.Expr) (Value, error) {
	switch n := ex.(type) {
	case *ast.ParenExpr:
		return e.eval(n.X)
	case *ast.BasicLit:
		switch n.Kind {
		case token.INT:
			i, err := strconv.ParseInt(n.Value, 0, 64)
			return IntT(i), err
		case token.STRING:
			s, err := strconv.Unquote(n.Value)
			return StrT(s), err
		case token.CHAR:
			s, err := strconv.Unquote(n.Value)
			if err != nil || len(s) == 0 {
				return nil, fmt.Errorf("bad char literal")
			}
			return IntT(int64([]rune(s)[0])), nil
		}
	case *ast.Ident:
		return e.ident(n.Name)
	case *ast.SelectorExpr:
		return e.selector(n)
	case *ast.UnaryExpr:
		t, err := e.evalTerm(n.X)
		if err != nil {
			return nil, err
		}
		switch n.Op {
		case token.NOT:
			return Not(t), nil
		case token.SUB:
			return Sub(IntT(0), t), nil
		}
	case *ast.BinaryExpr:
		return e.binary(n)
	case *ast.IndexExpr:
		base, err := e.evalTerm(n.X)
		if err != nil {
			return nil, err
		}
		idx, err := e.evalTerm(n.Index)
		if err != nil {
			return nil, err
		}
		if base.Sort == "String" {
			return strByteAt(base, idx), nil
		}
		if strings.HasPrefix(base.Sort, "Sl_") {
			return Select(slArr(base), idx, elemSortOfSlice(e.x.w, base.Sort)), nil
		}
		return nil, fmt.Errorf("index on sort %s", base.Sort)
	case *ast.SliceExpr:
		base, err := e.evalTerm(n.X)
		if err != nil {
			return nil, err
		}
		if base.Sort != "String" {
			return nil, fmt.Errorf("slice expression on sort %s", base.Sort)
		}
		lo, hi := IntT(0), StrLen(base)
		if n.Low != nil {
			if lo, err = e.evalTerm(n.Low); err != nil {
				return nil, err
			}
		}
		if n.High != nil {
			if hi, err = e.evalTerm(n.High); err != nil {
				return nil, err
			}
		}
		return substr(base, lo, Sub(hi, lo)), nil
	case *ast.CallExpr:
		return e.call(n)
	}
	return nil, fmt.Errorf("unsupported contract expression %s", exprString(ex))
}

func (e *SpecEnv) ident(name string) (Value, error) {
	v, err := e.ident0(name)
	if os.Getenv("GOVC_DEBUG_IDENT") == name {
		fmt.Fprintf(os.Stderr, "ident %s -> %v (%T) err=%v\n", name, v, v, err)
	}
	return v, err
}

// singleAssignedValue: see the comment at its call.
func (e *SpecEnv) singleAssignedValue(name string, at *ssa.BasicBlock) ssa.Value {
	var val ssa.Value
	for _, b := range e.frame.fn.Blocks {
		for _, ins := range b.Instrs {
			dr, ok := ins.(*ssa.DebugRef)
			if !ok || dr.IsAddr {
				continue
			}
			id, ok := dr.Expr.(*ast.Ident)
			if !ok || id.Name != name {
				continue
			}
			if _, isConst := dr.X.(*ssa.Const); isConst {
				continue
			}
			if val != nil && val != dr.X {
				return nil // assigned more than once
			}
			val = dr.X
		}
	}
	if val == nil {
		return nil
	}
	in, ok := val.(ssa.Instruction)
	if !ok || in.Block() == nil || !in.Block().Dominates(at) || in.Block() == at {
		return nil
	}
	if _, ok := e.frame.env[val]; !ok {
		return nil
	}
	return val
}

func (e *SpecEnv) ident0(name string) (Value, error) {
	if b, ok := e.bound[name]; ok {
		return b, nil
	}
	switch name {
	case "true":
		return True, nil
	case "false":
		return False, nil
	case "nil":
		return nilMarker{}, nil
	}
	if e.inOld && e.old != nil && len(e.old.frames) > 0 && e.fn != nil && e.old.frames[0].fn == e.fn {
		// parameters whose SSA value was rebound (writes through s[i]) have their entry value in the snapshot
		for _, p := range e.fn.Params {
			if p.Name() == name {
				if v, ok := e.old.frames[0].env[p]; ok {
					return v, nil
				}
			}
		}
	}
	if v, ok := e.vars[name]; ok {
		if p, ok := v.(*PtrV); ok && len(p.path) == 0 {
			return p, nil
		}
		return v, nil
	}
	// loop-carried variable by phi comment / SSA name
	if e.loop != nil && e.frame != nil {
		for _, ins := range e.loop.header.Instrs {
			phi, ok := ins.(*ssa.Phi)
			if !ok {
				break
			}
			if phi.Comment == name || phi.Name() == name {
				if v, ok := e.frame.env[phi]; ok {
					return v, nil
				}
			}
		}
		// a variable carried by an earlier loop and unchanged here: the phi of a dominating header
		var best *ssa.Phi
		for _, b := range e.frame.fn.Blocks {
			if !b.Dominates(e.loop.header) || b == e.loop.header {
				continue
			}
			for _, ins := range b.Instrs {
				phi, ok := ins.(*ssa.Phi)
				if !ok {
					break
				}
				if phi.Comment == name {
					if _, ok := e.frame.env[phi]; ok {
						if best == nil || best.Block().Dominates(b) {
							best = phi
						}
					}
				}
			}
		}
		if best != nil {
			return e.frame.env[best], nil
		}
	}
	// at a return: a loop-carried variable of a loop the return is dominated by
	if e.loop == nil && e.frame != nil && e.atBlock != nil {
		var best *ssa.Phi
		for _, b := range e.frame.fn.Blocks {
			if !b.Dominates(e.atBlock) {
				continue
			}
			for _, ins := range b.Instrs {
				phi, ok := ins.(*ssa.Phi)
				if !ok {
					break
				}
				if phi.Comment == name {
					if _, ok := e.frame.env[phi]; ok {
						if best == nil || best.Block().Dominates(b) {
							best = phi
						}
					}
				}
			}
		}
		if best != nil {
			return e.frame.env[best], nil
		}
	}
	// a local variable that lives in memory (its address is taken): the Alloc of that name; checked before
	// the DebugRef records, which for such a variable are snapshots of single assignments
	if e.frame != nil {
		for _, b := range e.frame.fn.Blocks {
			for _, ins := range b.Instrs {
				if al, ok := ins.(*ssa.Alloc); ok && al.Comment == name {
					if v, ok := e.frame.env[al]; ok {
						if pv, isPtr := v.(*PtrV); isPtr && len(pv.path) == 0 {
							if _, isStruct := al.Type().(*types.Pointer).Elem().Underlying().(*types.Struct); !isStruct {
								// a scalar / slice / interface variable: its current content
								return e.x.load(e.cur(), pv, nil, token.NoPos), nil
							}
						}
						return v, nil
					}
				}
			}
		}
	}
	// any other local: the value a DebugRef of that name records, defined in a block that
	// dominates the point of evaluation (innermost one wins)
	if e.frame != nil {
		var at *ssa.BasicBlock
		if e.loop != nil {
			at = e.loop.header
		} else {
			at = e.atBlock
		}
		if at != nil {
			var best ssa.Value
			var bestBlock *ssa.BasicBlock
			for _, b := range e.frame.fn.Blocks {
				if !b.Dominates(at) || (e.loop != nil && b == at) {
					continue
				}
				for _, ins := range b.Instrs {
					dr, ok := ins.(*ssa.DebugRef)
					if !ok || dr.IsAddr {
						continue
					}
					id, ok := dr.Expr.(*ast.Ident)
					if !ok || id.Name != name {
						continue
					}
					if _, ok := e.frame.env[dr.X]; !ok {
						if _, isConst := dr.X.(*ssa.Const); !isConst {
							continue
						}
					}
					if bestBlock == nil || bestBlock.Dominates(b) {
						best, bestBlock = dr.X, b
					}
				}
			}
			if best != nil {
				if c, ok := best.(*ssa.Const); ok {
					// `x := T{}` is recorded as "x is <zero value>" at the declaration and the value it is
					// given right away only shows at later uses: if every use of the same variable -- anywhere in
					// the function -- names one and the same value and that value is defined before the point
					// of evaluation, that value is what the variable holds (it is never assigned again)
					if alt := e.singleAssignedValue(name, at); alt != nil {
						return e.frame.env[alt], nil
					}
					return e.x.constVal(c), nil
				}
				return e.frame.env[best], nil
			}
		}
	}
	// package-level constant
	if e.fn != nil {
		var pkg *types.Package
		if e.fn.Pkg != nil {
			pkg = e.fn.Pkg.Pkg
		} else if e.fn.Parent() != nil && e.fn.Parent().Pkg != nil {
			pkg = e.fn.Parent().Pkg.Pkg
		}
		if pkg != nil {
			if v, err := e.pkgObject(pkg, name); err == nil {
				return v, nil
			}
			// package-level variable: its (read-only) content
			if _, isVar := pkg.Scope().Lookup(name).(*types.Var); isVar {
				if sp := e.x.w.prog.Package(pkg); sp != nil {
					if g, ok := sp.Members[name].(*ssa.Global); ok {
						if pv, ok := e.x.globalPtr(e.cur(), g).(*PtrV); ok {
							return e.x.load(e.cur(), pv, nil, token.NoPos), nil
						}
					}
				}
			}
		}
	}
	return nil, fmt.Errorf("unknown identifier %s", name)
}

type nilMarker struct{}

func (e *SpecEnv) pkgObject(pkg *types.Package, name string) (Value, error) {
	obj := pkg.Scope().Lookup(name)
	if c, ok := obj.(*types.Const); ok {
		return constToTerm(c.Val())
	}
	return nil, fmt.Errorf("no constant %s in %s", name, pkg.Name())
}

func constToTerm(v constant.Value) (Value, error) {
	switch v.Kind() {
	case constant.Bool:
		return BoolT(constant.BoolVal(v)), nil
	case constant.Int:
		i, _ := constant.Int64Val(v)
		return IntT(i), nil
	case constant.String:
		return StrT(constant.StringVal(v)), nil
	}
	return nil, fmt.Errorf("unsupported constant kind")
}

func (e *SpecEnv) selector(n *ast.SelectorExpr) (Value, error) {
	// package-qualified constant?
	if id, ok := n.X.(*ast.Ident); ok {
		if _, isVar := e.vars[id.Name]; !isVar {
			if _, isB := e.bound[id.Name]; !isB {
				if sp := e.x.w.spkgs[id.Name]; sp != nil {
					return e.pkgObject(sp.Pkg, n.Sel.Name)
				}
			}
		}
	}
	base, err := e.eval(n.X)
	if err != nil {
		return nil, err
	}
	if p, ok := base.(*PtrV); ok {
		base = e.x.load(e.cur(), p, nil, token.NoPos)
	}
	t := e.x.term(base)
	if t == nil {
		return nil, fmt.Errorf("selector on non-term")
	}
	return e.fieldOf(t, n.Sel.Name)
}

func (e *SpecEnv) fieldOf(t *Term, field string) (Value, error) {
	if strings.HasPrefix(t.Sort, "Ptr_") {
		t = Sel("unbox_"+t.Sort, t)
	}
	sel := t.Sort + "__" + field
	if _, ok := selToCtor[sel]; ok {
		return Sel(sel, t), nil
	}
	// promoted field through an embedded struct
	if d := e.x.w.dts[t.Sort]; d != nil && len(d.Ctors) == 1 {
		if named := e.x.w.structOf[t.Sort]; named != nil {
			st := named.Underlying().(*types.Struct)
			for i := 0; i < st.NumFields(); i++ {
				if st.Field(i).Embedded() {
					inner := Sel(d.Ctors[0].Sels[i], t)
					if v, err := e.fieldOf(inner, field); err == nil {
						return v, nil
					}
				}
			}
		}
	}
	return nil, fmt.Errorf("no field %s in %s", field, t.Sort)
}

func (e *SpecEnv) binary(n *ast.BinaryExpr) (Value, error) {
	// comparisons with nil
	if n.Op == token.EQL || n.Op == token.NEQ {
		if id, ok := n.Y.(*ast.Ident); ok && id.Name == "nil" {
			if _, shadow := e.vars["nil"]; !shadow {
				a, err := e.eval(n.X)
				if err != nil {
					return nil, err
				}
				r, err := e.isNil(a)
				if err != nil {
					return nil, err
				}
				if n.Op == token.NEQ {
					r = Not(r)
				}
				return r, nil
			}
		}
	}
	a, err := e.evalTerm(n.X)
	if err != nil {
		return nil, err
	}
	if n.Op == token.LAND || n.Op == token.LOR {
		b, err := e.evalTerm(n.Y)
		if err != nil {
			return nil, err
		}
		if n.Op == token.LAND {
			return And(a, b), nil
		}
		return Or(a, b), nil
	}
	b, err := e.evalTerm(n.Y)
	if err != nil {
		return nil, err
	}
	if a.Sort != b.Sort {
		return nil, fmt.Errorf("sort mismatch in %s: %s vs %s", exprString(n), a.Sort, b.Sort)
	}
	switch n.Op {
	case token.ADD:
		if a.Sort == "String" {
			return Concat(a, b), nil
		}
		return Add(a, b), nil
	case token.SUB:
		return Sub(a, b), nil
	case token.MUL:
		return Mul(a, b), nil
	case token.QUO:
		return goDiv(a, b), nil
	case token.REM:
		return goRem(a, b), nil
	case token.EQL:
		return e.x.eqTerms(a, b), nil
	case token.NEQ:
		return Not(e.x.eqTerms(a, b)), nil
	case token.LSS, token.LEQ, token.GTR, token.GEQ:
		if a.Sort == "String" {
			switch n.Op {
			case token.LSS:
				return App("str.<", "Bool", a, b), nil
			case token.LEQ:
				return App("str.<=", "Bool", a, b), nil
			case token.GTR:
				return App("str.<", "Bool", b, a), nil
			default:
				return App("str.<=", "Bool", b, a), nil
			}
		}
		return Cmp(n.Op.String(), a, b), nil
	}
	return nil, fmt.Errorf("unsupported operator %s", n.Op)
}

func (e *SpecEnv) isNil(v Value) (*Term, error) {
	switch t := v.(type) {
	case nil:
		return True, nil
	case *ClosureV:
		return False, nil
	case *ParamFuncV:
		return VarT("fnnil_"+t.name, "Bool"), nil
	case *PtrV:
		if len(t.path) == 0 {
			return False, nil
		}
		v = e.x.load(e.cur(), t, nil, token.NoPos)
		return e.isNil(v)
	case *Term:
		switch {
		case t.Sort == "Dyn":
			return Is("dyn_nil", t), nil
		case t.Sort == "Err":
			return Is("err_nil", t), nil
		case strings.HasPrefix(t.Sort, "Sl_"):
			return slNil(t), nil
		case strings.HasPrefix(t.Sort, "Ptr_"):
			return Is("nil_"+t.Sort, t), nil
		case t.Sort == "Int":
			return Eq(t, IntT(0)), nil // map reference
		case t.Sort == "Opaque":
			return Eq(t, VarT("opaque_nil", "Opaque")), nil
		}
	}
	return nil, fmt.Errorf("nil comparison on %T", v)
}

func (e *SpecEnv) call(n *ast.CallExpr) (Value, error) {
	if id, ok := n.Fun.(*ast.Ident); ok {
		switch id.Name {
		case "old":
			if len(n.Args) != 1 {
				return nil, fmt.Errorf("old takes one argument")
			}
			save := e.inOld
			e.inOld = true
			defer func() { e.inOld = save }()
			v, err := e.eval(n.Args[0])
			if err != nil {
				return nil, err
			}
			if p, ok := v.(*PtrV); ok {
				v = e.x.load(e.old, p, nil, token.NoPos)
			}
			return v, nil
		case "implies":
			a, err := e.evalTerm(n.Args[0])
			if err != nil {
				return nil, err
			}
			b, err := e.evalTerm(n.Args[1])
			if err != nil {
				return nil, err
			}
			return Implies(a, b), nil
		case "ite":
			c, err := e.evalTerm(n.Args[0])
			if err != nil {
				return nil, err
			}
			a, err := e.evalTerm(n.Args[1])
			if err != nil {
				return nil, err
			}
			b, err := e.evalTerm(n.Args[2])
			if err != nil {
				return nil, err
			}
			return Ite(c, a, b), nil
		case "len":
			t, err := e.evalTerm(n.Args[0])
			if err != nil {
				return nil, err
			}
			if t.Sort == "String" {
				return StrLen(t), nil
			}
			if strings.HasPrefix(t.Sort, "Sl_") {
				return slLen(t), nil
			}
			return nil, fmt.Errorf("len on sort %s", t.Sort)
		case "itoa":
			t, err := e.evalTerm(n.Args[0])
			if err != nil {
				return nil, err
			}
			return itoaTerm(t), nil
		case "forall", "exists":
			return e.quant(id.Name, n)
		case "forallstr":
			// forallstr(s, body): for every string s
			if len(n.Args) != 2 {
				return nil, fmt.Errorf("forallstr(s, body) expected")
			}
			sid, ok := n.Args[0].(*ast.Ident)
			if !ok {
				return nil, fmt.Errorf("forallstr: first argument must be an identifier")
			}
			e.x.fresh++
			bv := VarT(fmt.Sprintf("%s!b%d", sid.Name, e.x.fresh), "String")
			saved, had := e.bound[sid.Name]
			e.bound[sid.Name] = bv
			body, err := e.evalTerm(n.Args[1])
			if had {
				e.bound[sid.Name] = saved
			} else {
				delete(e.bound, sid.Name)
			}
			if err != nil {
				return nil, err
			}
			return Quant("forall", []*Term{bv}, body), nil
		case "appended":
			return e.appended(n)
		case "samePrefix":
			return e.samePrefix(n)
		case "catEq":
			return e.catEq(n)
		case "seqEq":
			return e.seqEq(n)
		case "seqOf":
			// literal sequence of strings / ints
			var elems []*Term
			for _, a := range n.Args {
				t, err := e.evalTerm(a)
				if err != nil {
					return nil, err
				}
				elems = append(elems, t)
			}
			if len(elems) == 0 {
				return nil, fmt.Errorf("seqOf needs at least one element")
			}
			es := elems[0].Sort
			ss := e.x.w.sliceSortOfElemSort(es)
			arr := e.x.w.constArray(es)
			for i, t := range elems {
				arr = Store(arr, IntT(int64(i)), t)
			}
			return mkSlice(ss, arr, IntT(int64(len(elems))), False), nil
		case "sameExcept":
			return e.sameExcept(n)
		case "isType":
			t, err := e.evalTerm(n.Args[0])
			if err != nil {
				return nil, err
			}
			lit, ok := n.Args[1].(*ast.BasicLit)
			if !ok {
				return nil, fmt.Errorf("isType needs a string literal")
			}
			name, _ := strconv.Unquote(lit.Value)
			cn, ok := e.x.w.dynCtor[name]
			if !ok {
				return nil, fmt.Errorf("unknown AST type %s", name)
			}
			return Is(cn, t), nil
		case "asType":
			t, err := e.evalTerm(n.Args[0])
			if err != nil {
				return nil, err
			}
			lit, ok := n.Args[1].(*ast.BasicLit)
			if !ok {
				return nil, fmt.Errorf("asType needs a string literal")
			}
			name, _ := strconv.Unquote(lit.Value)
			cn, ok := e.x.w.dynCtor[name]
			if !ok {
				return nil, fmt.Errorf("unknown AST type %s", name)
			}
			return Sel(ctorByName[cn].Sels[0], t), nil
		case "calls", "arg", "res", "seq":
			return e.eventExpr(id.Name, n)
		case "has", "get":
			return e.mapExpr(id.Name, n)
		case "contains":
			a, err := e.evalTerm(n.Args[0])
			if err != nil {
				return nil, err
			}
			b, err := e.evalTerm(n.Args[1])
			if err != nil {
				return nil, err
			}
			if a.Sort == "String" {
				return App("str.contains", "Bool", a, b), nil
			}
			return e.x.sliceContains(a, b), nil
		case "hasPrefix":
			a, err := e.evalTerm(n.Args[0])
			if err != nil {
				return nil, err
			}
			b, err := e.evalTerm(n.Args[1])
			if err != nil {
				return nil, err
			}
			return prefixOf(b, a), nil
		case "hasSuffix":
			a, err := e.evalTerm(n.Args[0])
			if err != nil {
				return nil, err
			}
			b, err := e.evalTerm(n.Args[1])
			if err != nil {
				return nil, err
			}
			return suffixOf(b, a), nil
		case "errmsg":
			a, err := e.evalTerm(n.Args[0])
			if err != nil {
				return nil, err
			}
			return Sel("err_msg", a), nil
		case "mapsKept":
			// mapsKept("Mp_..."): every map of that content sort that existed at entry has its entry content
			lit, ok := n.Args[0].(*ast.BasicLit)
			if !ok {
				return nil, fmt.Errorf("mapsKept needs a sort name")
			}
			cs, _ := strconv.Unquote(lit.Value)
			if e.x.w.dts[cs] == nil {
				return nil, fmt.Errorf("unknown map content sort %s", cs)
			}
			oldAlloc := e.old.alloc
			if oldAlloc == nil {
				oldAlloc = IntT(0)
			}
			e.x.fresh++
			r := VarT(fmt.Sprintf("r!m%d", e.x.fresh), "Int")
			hNew := e.x.heap(e.st, cs)
			hOld := e.x.heap(e.old, cs)
			return Quant("forall", []*Term{r}, Implies(And(Cmp("<", IntT(0), r), Cmp("<=", r, oldAlloc)),
				Eq(App("select", cs, hNew, r), App("select", cs, hOld, r)))), nil
		case "bytesOf":
			t, err := e.evalTerm(n.Args[0])
			if err != nil {
				return nil, err
			}
			return App("bytes_of", e.x.w.sliceSortOfElemSort("Int"), t), nil
		case "atoi":
			t, err := e.evalTerm(n.Args[0])
			if err != nil {
				return nil, err
			}
			return App("itoa_inv", "Int", t), nil
		}
		if mc := e.lookupMacro(id.Name); mc != nil {
			if len(n.Args) != len(mc.Params) {
				return nil, fmt.Errorf("macro %s expects %d arguments", mc.Name, len(mc.Params))
			}
			saved := map[string]Value{}
			had := map[string]bool{}
			var vals []Value
			for _, a := range n.Args {
				v, err := e.eval(a)
				if err != nil {
					return nil, err
				}
				vals = append(vals, v)
			}
			for i, p := range mc.Params {
				saved[p], had[p] = e.vars[p]
				e.vars[p] = vals[i]
			}
			res, err := e.eval(mc.Expr)
			for _, p := range mc.Params {
				if had[p] {
					e.vars[p] = saved[p]
				} else {
					delete(e.vars, p)
				}
			}
			return res, err
		}
		// function of the current package (spec function or real pure function)
		if e.fn != nil {
			if fn := e.lookupFunc(id.Name); fn != nil {
				return e.applyFunc(fn, nil, n.Args)
			}
		}
		return nil, fmt.Errorf("unknown function %s in contract", id.Name)
	}
	if sel, ok := n.Fun.(*ast.SelectorExpr); ok {
		// pkg.Func(...)
		if id, ok := sel.X.(*ast.Ident); ok && id.Name == "strings" {
			if _, isVar := e.vars[id.Name]; !isVar {
				return e.stringsCall(sel.Sel.Name, n.Args)
			}
		}
		if id, ok := sel.X.(*ast.Ident); ok {
			if _, isVar := e.vars[id.Name]; !isVar {
				if _, isB := e.bound[id.Name]; !isB {
					if sp := e.x.w.spkgs[id.Name]; sp != nil {
						if fn := sp.Func(sel.Sel.Name); fn != nil {
							return e.applyFunc(fn, nil, n.Args)
						}
						return nil, fmt.Errorf("no function %s.%s", id.Name, sel.Sel.Name)
					}
				}
			}
		}
		// method call
		recv, err := e.eval(sel.X)
		if err != nil {
			return nil, err
		}
		return e.methodCall(recv, sel.Sel.Name, n.Args)
	}
	return nil, fmt.Errorf("unsupported call %s", exprString(n))
}

func (e *SpecEnv) lookupMacro(name string) *Macro {
	f := e.fn
	var pkg *ssa.Package
	for f != nil && pkg == nil {
		pkg = f.Pkg
		f = f.Parent()
	}
	if pkg == nil {
		return nil
	}
	return e.x.w.macros[shortPkg(pkg.Pkg.Path())+"."+name]
}

func (e *SpecEnv) lookupFunc(name string) *ssa.Function {
	var pkg *ssa.Package
	f := e.fn
	for f != nil && pkg == nil {
		pkg = f.Pkg
		f = f.Parent()
	}
	if pkg == nil {
		return nil
	}
	return pkg.Func(name)
}

func (e *SpecEnv) applyFunc(fn *ssa.Function, recv Value, argExprs []ast.Expr) (Value, error) {
	var args []Value
	if recv != nil {
		args = append(args, recv)
	}
	for _, a := range argExprs {
		v, err := e.eval(a)
		if err != nil {
			return nil, err
		}
		if p, ok := v.(*PtrV); ok && len(p.path) > 0 {
			v = e.x.load(e.cur(), p, nil, token.NoPos)
		}
		args = append(args, v)
	}
	return e.applyFuncVals(fn, args)
}

func (e *SpecEnv) applyFuncVals(fn *ssa.Function, args []Value) (Value, error) {
	if pd := e.x.w.pureDef(fn); pd != nil {
		targs, ok := e.x.pureArgs(e.cur(), pd, args)
		if !ok {
			return nil, fmt.Errorf("argument of %s has no term", fn.Name())
		}
		return e.x.pureApp(pd, targs), nil
	}
	// inline-evaluate a side-effect free function on a scratch copy of the state
	scratch := e.cur().clone()
	var out []Value
	var pcs [][]*Term
	save := e.x.obls
	saveOut := e.x.outside
	base := e.cur().pc
	e.x.specEval++
	e.x.runFunc(scratch, fn, args, nil, func(s2 *State, res []Value) {
		if len(res) > 0 {
			out = append(out, res[0])
			pcs = append(pcs, pcSince(s2.pc, base))
		}
	})
	e.x.specEval--
	e.x.obls = save
	if e.x.outside != saveOut {
		msg := e.x.outside
		e.x.outside = saveOut
		return nil, fmt.Errorf("cannot evaluate %s in contract: %s", fn.Name(), msg)
	}
	if len(out) == 0 {
		return nil, fmt.Errorf("function %s yields no value in contract", fn.Name())
	}
	// merge results by path condition
	res := e.x.term(out[len(out)-1])
	if res == nil {
		return nil, fmt.Errorf("function %s yields non-term", fn.Name())
	}
	for i := len(out) - 2; i >= 0; i-- {
		t := e.x.term(out[i])
		if t == nil {
			return nil, fmt.Errorf("function %s yields non-term", fn.Name())
		}
		res = Ite(And(pcs[i]...), t, res)
	}
	return res, nil
}

func pcSince(p, base *PC) []*Term {
	var out []*Term
	for q := p; q != nil && q != base; q = q.parent {
		out = append(out, q.t)
	}
	return out
}

func (e *SpecEnv) methodCall(recv Value, name string, argExprs []ast.Expr) (Value, error) {
	w := e.x.w
	var rt *Term
	switch r := recv.(type) {
	case *PtrV:
		// method on the pointee (pointer receiver methods evaluated inline)
		if named, ok := r.cell.typ.(*types.Named); ok && len(r.path) == 0 {
			if fn := w.prog.LookupMethod(types.NewPointer(named), named.Obj().Pkg(), name); fn != nil {
				return e.applyFunc(fn, r, argExprs)
			}
		}
		rt = e.x.term(e.x.load(e.cur(), r, nil, token.NoPos))
	default:
		rt = e.x.term(recv)
	}
	if rt == nil {
		return nil, fmt.Errorf("method %s on non-term", name)
	}
	if rt.Sort == "Dyn" {
		pd := w.dispatchDef(name)
		if pd == nil {
			return nil, fmt.Errorf("no AST method %s", name)
		}
		targs := []*Term{rt}
		for _, a := range argExprs {
			t, err := e.evalTerm(a)
			if err != nil {
				return nil, err
			}
			targs = append(targs, t)
		}
		return App(pd.name, pd.resSort, targs...), nil
	}
	if rt.Sort == "Err" && name == "Error" {
		return Sel("err_msg", rt), nil
	}
	if strings.HasPrefix(rt.Sort, "Ptr_") {
		// a boxed pointer to a struct: the method of the pointee (value receiver) on the unboxed value
		rt = Sel("unbox_"+rt.Sort, rt)
	}
	if named := w.structOf[rt.Sort]; named != nil {
		if fn := w.prog.LookupMethod(named, named.Obj().Pkg(), name); fn != nil {
			return e.applyFunc(fn, rt, argExprs)
		}
	}
	return nil, fmt.Errorf("no method %s on sort %s", name, rt.Sort)
}

func (e *SpecEnv) quant(kind string, n *ast.CallExpr) (Value, error) {
	if len(n.Args) != 4 {
		return nil, fmt.Errorf("%s(k, lo, hi, body) expected", kind)
	}
	id, ok := n.Args[0].(*ast.Ident)
	if !ok {
		return nil, fmt.Errorf("%s: first argument must be an identifier", kind)
	}
	lo, err := e.evalTerm(n.Args[1])
	if err != nil {
		return nil, err
	}
	var hi *Term
	unbounded := false
	if hid, ok := n.Args[2].(*ast.Ident); ok && hid.Name == "inf" {
		unbounded = true
		hi = IntT(0)
	} else {
		hi, err = e.evalTerm(n.Args[2])
		if err != nil {
			return nil, err
		}
	}
	e.x.fresh++
	bv := VarT(fmt.Sprintf("%s!b%d", id.Name, e.x.fresh), "Int")
	saved, had := e.bound[id.Name]
	e.bound[id.Name] = bv
	body, err := e.evalTerm(n.Args[3])
	if had {
		e.bound[id.Name] = saved
	} else {
		delete(e.bound, id.Name)
	}
	if err != nil {
		return nil, err
	}
	rng := And(Cmp("<=", lo, bv), Cmp("<", bv, hi))
	if unbounded {
		rng = Cmp("<=", lo, bv)
	}
	// small constant ranges are expanded
	if !unbounded && lo.Kind == KInt && hi.Kind == KInt && hi.I-lo.I <= 12 {
		var parts []*Term
		for i := lo.I; i < hi.I; i++ {
			parts = append(parts, substTerm(body, []*Term{bv}, []*Term{IntT(i)}))
		}
		if kind == "forall" {
			return And(parts...), nil
		}
		return Or(parts...), nil
	}
	// a range [lo, X+1) over a sequence whose element X was just stored (the shape append produces):
	// split off the last index, so that the remaining quantifier talks about the sequence before
	// the store -- the form in which the solver's triggers match what is known about it.
	if !unbounded {
		if base, c := splitOffset(hi); base != nil && c == 1 {
			if rest, found := dropStoreAt(body, bv, base); found {
				last := substTerm(body, []*Term{bv}, []*Term{base})
				rng2 := And(Cmp("<=", lo, bv), Cmp("<", bv, base))
				if kind == "forall" {
					return And(Implies(Cmp("<=", lo, base), last), Quant("forall", []*Term{bv}, Implies(rng2, rest))), nil
				}
				return Or(And(Cmp("<=", lo, base), last), Quant("exists", []*Term{bv}, And(rng2, rest))), nil
			}
		}
	}
	if kind == "forall" {
		return Quant("forall", []*Term{bv}, Implies(rng, body)), nil
	}
	return Quant("exists", []*Term{bv}, And(rng, body)), nil
}

// dropStoreAt rewrites select(store(A, at, V), bv) to select(A, bv) everywhere in t (valid where
// bv != at) and reports whether the pattern occurred.
func dropStoreAt(t *Term, bv, at *Term) (*Term, bool) {
	switch t.Kind {
	case KApp:
		if t.Op == "select" && len(t.Args) == 2 && sameTerm(t.Args[1], bv) {
			a := t.Args[0]
			if a.Kind == KApp && a.Op == "store" && sameTerm(a.Args[1], at) {
				inner, _ := dropStoreAt(a.Args[0], bv, at)
				return Select(inner, bv, t.Sort), true
			}
		}
		args := make([]*Term, len(t.Args))
		found := false
		for i, a := range t.Args {
			r, f := dropStoreAt(a, bv, at)
			args[i] = r
			found = found || f
		}
		if !found {
			return t, false
		}
		return rebuild(t.Op, t.Sort, args), true
	case KQuant:
		for _, b := range t.Bound {
			if sameTerm(b, bv) {
				return t, false
			}
		}
		r, f := dropStoreAt(t.Args[0], bv, at)
		if !f {
			return t, false
		}
		return Quant(t.Op, t.Bound, r), true
	}
	return t, false
}

// appended(new, old, x1, ..., xn): new is old followed by exactly x1..xn.
func (e *SpecEnv) appended(n *ast.CallExpr) (Value, error) {
	if len(n.Args) < 2 {
		return nil, fmt.Errorf("appended(new, old, items...)")
	}
	nw, err := e.evalTerm(n.Args[0])
	if err != nil {
		return nil, err
	}
	od, err := e.evalTerm(n.Args[1])
	if err != nil {
		return nil, err
	}
	es := elemSortOfSlice(e.x.w, nw.Sort)
	k := len(n.Args) - 2
	parts := []*Term{Eq(slLen(nw), Add(slLen(od), IntT(int64(k)))), e.x.prefixEq(od, nw)}
	for i := 0; i < k; i++ {
		it, err := e.evalTerm(n.Args[2+i])
		if err != nil {
			return nil, err
		}
		parts = append(parts, Eq(Select(slArr(nw), Add(slLen(od), IntT(int64(i))), es), it))
	}
	return And(parts...), nil
}

// samePrefix(old, new): every element of old is still at its index in new.
func (e *SpecEnv) samePrefix(n *ast.CallExpr) (Value, error) {
	od, err := e.evalTerm(n.Args[0])
	if err != nil {
		return nil, err
	}
	nw, err := e.evalTerm(n.Args[1])
	if err != nil {
		return nil, err
	}
	return And(Cmp("<=", slLen(od), slLen(nw)), e.x.prefixEq(od, nw)), nil
}

func (x *Exec) prefixEq(od, nw *Term) *Term {
	es := elemSortOfSlice(x.w, nw.Sort)
	// syntactic shortcut: new array is a store chain over the old array at indices >= len(old)
	cur := slArr(nw)
	base := slArr(od)
	for cur.Kind == KApp && cur.Op == "store" {
		if sameTerm(cur, base) {
			break
		}
		idx := cur.Args[1]
		b, c := splitOffset(idx)
		lb, lc := splitOffset(slLen(od))
		okIdx := false
		if b != nil && lb != nil && sameTerm(b, lb) && c >= lc {
			okIdx = true
		}
		if b == nil && lb == nil && idx.Kind == KInt && slLen(od).Kind == KInt && idx.I >= slLen(od).I {
			okIdx = true
		}
		if !okIdx {
			break
		}
		cur = cur.Args[0]
	}
	if sameTerm(cur, base) {
		return True
	}
	x.fresh++
	k := VarT(fmt.Sprintf("k!p%d", x.fresh), "Int")
	return Quant("forall", []*Term{k}, Implies(And(Cmp("<=", IntT(0), k), Cmp("<", k, slLen(od))),
		Eq(App("select", es, slArr(nw), k), App("select", es, slArr(od), k))))
}

func (x *Exec) sliceContains(sl, v *Term) *Term {
	es := elemSortOfSlice(x.w, sl.Sort)
	if n := slLen(sl); n.Kind == KInt && n.I <= 16 {
		var alts []*Term
		for i := int64(0); i < n.I; i++ {
			alts = append(alts, Eq(Select(slArr(sl), IntT(i), es), v))
		}
		return Or(alts...)
	}
	x.fresh++
	k := VarT(fmt.Sprintf("k!c%d", x.fresh), "Int")
	return Quant("exists", []*Term{k}, And(Cmp("<=", IntT(0), k), Cmp("<", k, slLen(sl)), Eq(App("select", es, slArr(sl), k), v)))
}

func (e *SpecEnv) eventExpr(kind string, n *ast.CallExpr) (Value, error) {
	id, ok := n.Args[0].(*ast.Ident)
	if !ok {
		return nil, fmt.Errorf("%s: event name expected", kind)
	}
	st := e.cur()
	ev, ok := st.ev[id.Name]
	if !ok {
		if kind == "calls" && st.evEpoch == "" {
			return IntT(0), nil
		}
		// create with sorts from the static signature table (count 0 in a concrete epoch)
		as, rs, ok := e.x.w.eventSorts(id.Name, e.fn)
		if !ok {
			return nil, fmt.Errorf("unknown event %s", id.Name)
		}
		ev = e.x.evKind(st, id.Name, as, rs)
	}
	switch kind {
	case "calls":
		return ev.n, nil
	case "seq":
		k, err := e.evalTerm(n.Args[1])
		if err != nil {
			return nil, err
		}
		return Select(ev.seq, k, "Int"), nil
	case "arg", "res":
		k, err := e.evalTerm(n.Args[1])
		if err != nil {
			return nil, err
		}
		jl, ok := n.Args[2].(*ast.BasicLit)
		if !ok {
			return nil, fmt.Errorf("%s: constant position expected", kind)
		}
		j, _ := strconv.Atoi(jl.Value)
		arrs, sorts := ev.args, ev.argSorts
		if kind == "res" {
			arrs, sorts = ev.res, ev.resSorts
		}
		if j >= len(arrs) {
			return nil, fmt.Errorf("%s(%s): position %d out of range", kind, id.Name, j)
		}
		return Select(arrs[j], k, sorts[j]), nil
	}
	return nil, fmt.Errorf("bad event expression")
}

// has(m, k) / get(m, k) on map references in the current (or old) heap.
func (e *SpecEnv) mapExpr(kind string, n *ast.CallExpr) (Value, error) {
	m, err := e.evalTerm(n.Args[0])
	if err != nil {
		return nil, err
	}
	k, err := e.evalTerm(n.Args[1])
	if err != nil {
		return nil, err
	}
	mt := e.mapTypeOf(n.Args[0])
	if mt == nil {
		return nil, fmt.Errorf("%s: cannot determine map type of %s", kind, exprString(n.Args[0]))
	}
	cs, _, vs := mapSorts(e.x.w, mt)
	h := e.x.heap(e.cur(), cs)
	c := Select(h, m, cs)
	if kind == "has" {
		return And(Neq(m, IntT(0)), Select(Sel(cs+"_has", c), k, "Bool")), nil
	}
	val := Select(Sel(cs+"_val", c), k, vs)
	e.x.assumeWellFormed(e.cur(), val, mt.Elem())
	return val, nil
}

// mapTypeOf finds the Go map type of a selector chain x.f.g by walking struct types.
func (e *SpecEnv) mapTypeOf(ex ast.Expr) *types.Map {
	t := e.goTypeOf(ex)
	if t == nil {
		return nil
	}
	m, _ := t.Underlying().(*types.Map)
	return m
}

func (e *SpecEnv) goTypeOf(ex ast.Expr) types.Type {
	switch n := ex.(type) {
	case *ast.ParenExpr:
		return e.goTypeOf(n.X)
	case *ast.CallExpr:
		if id, ok := n.Fun.(*ast.Ident); ok && id.Name == "old" {
			return e.goTypeOf(n.Args[0])
		}
	case *ast.Ident:
		if e.fn != nil {
			for _, p := range e.fn.Params {
				if p.Name() == n.Name {
					return p.Type()
				}
			}
			for _, p := range e.fn.FreeVars {
				if p.Name() == n.Name {
					return p.Type()
				}
			}
			// a named local of the function (its type is the same wherever it is in scope under that name;
			// if two locals of different types share the name the first one found decides)
			if e.frame != nil && e.frame.fn != nil {
				for _, b := range e.frame.fn.Blocks {
					for _, ins := range b.Instrs {
						switch in := ins.(type) {
						case *ssa.Alloc:
							if in.Comment == n.Name {
								return in.Type().(*types.Pointer).Elem()
							}
						case *ssa.DebugRef:
							if id, ok := in.Expr.(*ast.Ident); ok && id.Name == n.Name && !in.IsAddr {
								return in.X.Type()
							}
						}
					}
				}
			}
			// package-level variable
			var pkg *types.Package
			if e.fn.Pkg != nil {
				pkg = e.fn.Pkg.Pkg
			} else if e.fn.Parent() != nil && e.fn.Parent().Pkg != nil {
				pkg = e.fn.Parent().Pkg.Pkg
			}
			if pkg != nil {
				if v, ok := pkg.Scope().Lookup(n.Name).(*types.Var); ok {
					return v.Type()
				}
			}
		}
	case *ast.SelectorExpr:
		bt := e.goTypeOf(n.X)
		if bt == nil {
			return nil
		}
		if p, ok := bt.Underlying().(*types.Pointer); ok {
			bt = p.Elem()
		}
		if st, ok := bt.Underlying().(*types.Struct); ok {
			for i := 0; i < st.NumFields(); i++ {
				if st.Field(i).Name() == n.Sel.Name {
					return st.Field(i).Type()
				}
			}
		}
	}
	return nil
}

func itoaTerm(t *Term) *Term {
	if t.Kind == KInt {
		return StrT(strconv.FormatInt(t.I, 10))
	}
	return App("itoa", "String", t)
}

// substTerm replaces variables by terms (rebuilding through the folding constructors).
func substTerm(t *Term, vars []*Term, vals []*Term) *Term {
	m := map[string]*Term{}
	for i, v := range vars {
		m[v.Op] = vals[i]
	}
	return subst(t, m)
}

func subst(t *Term, m map[string]*Term) *Term {
	switch t.Kind {
	case KVar:
		if r, ok := m[t.Op]; ok {
			return r
		}
		return t
	case KQuant:
		inner := map[string]*Term{}
		for k, v := range m {
			inner[k] = v
		}
		for _, b := range t.Bound {
			delete(inner, b.Op)
		}
		return Quant(t.Op, t.Bound, subst(t.Args[0], inner))
	case KApp:
		args := make([]*Term, len(t.Args))
		changed := false
		for i, a := range t.Args {
			args[i] = subst(a, m)
			if args[i] != a {
				changed = true
			}
		}
		if !changed {
			return t
		}
		return rebuild(t.Op, t.Sort, args)
	}
	return t
}

func rebuild(op, sortName string, args []*Term) *Term {
	switch op {
	case "not":
		return Not(args[0])
	case "and":
		return And(args...)
	case "or":
		return Or(args...)
	case "=>":
		return Implies(args[0], args[1])
	case "ite":
		return Ite(args[0], args[1], args[2])
	case "=":
		return Eq(args[0], args[1])
	case "+":
		if len(args) == 2 {
			return Add(args[0], args[1])
		}
	case "-":
		if len(args) == 2 {
			return Sub(args[0], args[1])
		}
	case "<", "<=", ">", ">=":
		return Cmp(op, args[0], args[1])
	case "str.++":
		return Concat(args...)
	case "str.len":
		return StrLen(args[0])
	case "select":
		return Select(args[0], args[1], sortName)
	case "itoa":
		return itoaTerm(args[0])
	}
	if pd, ok := pureByName[op]; ok && pd.state == 2 && pd.name == op {
		return pureAppTerm(pd, args)
	}
	if _, ok := selToCtor[op]; ok && len(args) == 1 {
		return Sel(op, args[0])
	}
	if _, ok := ctorByName[op]; ok {
		return Mk(op, args...)
	}
	if strings.HasPrefix(op, "(_ is ") && len(args) == 1 {
		return Is(strings.TrimSuffix(strings.TrimPrefix(op, "(_ is "), ")"), args[0])
	}
	return App(op, sortName, args...)
}

// catEq(new, old, extra): new is old followed by the elements of extra.
func (e *SpecEnv) catEq(n *ast.CallExpr) (Value, error) {
	if len(n.Args) != 3 {
		return nil, fmt.Errorf("catEq(new, old, extra)")
	}
	nw, err := e.evalTerm(n.Args[0])
	if err != nil {
		return nil, err
	}
	od, err := e.evalTerm(n.Args[1])
	if err != nil {
		return nil, err
	}
	ex, err := e.evalTerm(n.Args[2])
	if err != nil {
		return nil, err
	}
	es := elemSortOfSlice(e.x.w, nw.Sort)
	parts := []*Term{Eq(slLen(nw), Add(slLen(od), slLen(ex))), e.x.prefixEq(od, nw)}
	if ln := slLen(ex); ln.Kind == KInt && ln.I <= 64 {
		for i := int64(0); i < ln.I; i++ {
			parts = append(parts, Eq(Select(slArr(nw), Add(slLen(od), IntT(i)), es), Select(slArr(ex), IntT(i), es)))
		}
		return And(parts...), nil
	}
	e.x.fresh++
	k := VarT(fmt.Sprintf("k!p%d", e.x.fresh), "Int")
	parts = append(parts, Quant("forall", []*Term{k}, Implies(And(Cmp("<=", IntT(0), k), Cmp("<", k, slLen(ex))),
		Eq(App("select", es, slArr(nw), Add(slLen(od), k)), App("select", es, slArr(ex), k)))))
	return And(parts...), nil
}

// seqEq(a, b): same length and elements.
func (e *SpecEnv) seqEq(n *ast.CallExpr) (Value, error) {
	a, err := e.evalTerm(n.Args[0])
	if err != nil {
		return nil, err
	}
	b, err := e.evalTerm(n.Args[1])
	if err != nil {
		return nil, err
	}
	return And(Eq(slLen(a), slLen(b)), e.x.prefixEq(a, b)), nil
}

// sameExcept(x, y, "f1", ...): struct values agree on every field not listed.
func (e *SpecEnv) sameExcept(n *ast.CallExpr) (Value, error) {
	a, err := e.evalTerm(n.Args[0])
	if err != nil {
		return nil, err
	}
	b, err := e.evalTerm(n.Args[1])
	if err != nil {
		return nil, err
	}
	skip := map[string]bool{}
	for _, ex := range n.Args[2:] {
		lit, ok := ex.(*ast.BasicLit)
		if !ok {
			return nil, fmt.Errorf("sameExcept: field names must be string literals")
		}
		f, _ := strconv.Unquote(lit.Value)
		skip[f] = true
	}
	d := e.x.w.dts[a.Sort]
	if d == nil || len(d.Ctors) != 1 || a.Sort != b.Sort {
		return nil, fmt.Errorf("sameExcept on sort %s", a.Sort)
	}
	var parts []*Term
	known := 0
	for _, s := range d.Ctors[0].Sels {
		f := strings.TrimPrefix(s, a.Sort+"__")
		if skip[f] {
			known++
			continue
		}
		parts = append(parts, Eq(Sel(s, a), Sel(s, b)))
	}
	if known != len(skip) {
		return nil, fmt.Errorf("sameExcept: unknown field name in %v", skip)
	}
	return And(parts...), nil
}

func (e *SpecEnv) stringsCall(name string, argExprs []ast.Expr) (Value, error) {
	var args []*Term
	var vals []Value
	for _, a := range argExprs {
		v, err := e.eval(a)
		if err != nil {
			return nil, err
		}
		if p, ok := v.(*PtrV); ok {
			v = e.x.load(e.cur(), p, nil, token.NoPos)
		}
		vals = append(vals, v)
		t := e.x.term(v)
		if t == nil {
			return nil, fmt.Errorf("strings.%s: argument has no term", name)
		}
		args = append(args, t)
	}
	switch name {
	case "Join":
		return e.x.joinModel(vals[0], args[1]), nil
	case "HasPrefix":
		return prefixOf(args[1], args[0]), nil
	case "HasSuffix":
		return suffixOf(args[1], args[0]), nil
	case "Contains":
		return App("str.contains", "Bool", args[0], args[1]), nil
	case "ReplaceAll":
		return replaceAll(args[0], args[1], args[2]), nil
	case "Index":
		return App("str.indexof", "Int", args[0], args[1], IntT(0)), nil
	case "IndexFrom":
		// strings.IndexFrom(s, sub, from): contract-only helper, the index of the first occurrence of
		// sub in s at or after from (-1 if none)
		return App("str.indexof", "Int", args[0], args[1], args[2]), nil
	case "Count":
		return strRangeFn("str_count", args[0], args[1]), nil
	case "LastIndex":
		return strRangeFn("str_lastidx", args[0], args[1]), nil
	case "TrimSpace":
		return trimSpace(args[0]), nil
	case "TrimLeft":
		return trimLeft(args[0], args[1]), nil
	}
	return nil, fmt.Errorf("strings.%s is not available in contracts", name)
}
