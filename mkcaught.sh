#!/bin/bash
# records, per seeded change, which property checks catch it (input of the thorough tier's must-fail corpus)
cd /verif
for d in seeded/*/; do
  s=$(basename $d)
  r=$(./seedcheck.sh seeded/$s C01 C02 C03 C04 C05 C06 C07 C08 C09 C10 C11 C12 C13 C14 C16 C17 C18 C19 2>&1 | grep "^RESULT")
  echo "$s $r"
  echo "$r" | sed 's/RESULT caught_by://' > seeded/$s/caught_by.txt
done
