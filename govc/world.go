package main

// World: loaded packages, Go-type -> SMT-sort mapping, datatype declarations.

import (
	"path/filepath"
	"os"
	"fmt"
	"go/types"
	"sort"
	"strings"

	"golang.org/x/tools/go/packages"
	"golang.org/x/tools/go/ssa"
	"golang.org/x/tools/go/ssa/ssautil"
)

const repoMod = "github.com/monstermichl/typeshell"

type DT struct {
	Name  string
	Ctors []*ctorInfo
}

type World struct {
	prog    *ssa.Program
	pkgs    []*packages.Package
	spkgs   map[string]*ssa.Package // by short name: lexer, parser, transpiler, bash, batch, main
	dts     map[string]*DT
	dtOrder []string
	sortMemo map[types.Type]string
	// AST interface machinery
	astIfaces []*types.Named // interfaces of package parser
	dynTypes  []*types.Named // concrete types implementing any of them
	dynCtor   map[string]string // type key -> ctor name
	structOf  map[string]*types.Named
	contracts map[string]*FuncContract // by function key
	specFiles []string
	macros    map[string]*Macro
	recvInv   map[string][]*Clause
	commonPost map[string][]*Clause
	typeInv   map[string][]*Clause
	nodeInv   map[string][]*Clause // invariants of AST node types (checked at boxing, axioms over Dyn)
	totalMethods map[string]bool
	nodeAxioms   []nodeAxiom
	nodeAxiomsDone bool
	midNames  map[string]bool // obligations solved with the middle time limit (known findings, quick tier)
	midTmo    int
	stopAfter int // quick tier: stop solving after this many ledger obligations have failed
	knownNames map[string]bool // every obligation name recorded in the ledgers (proved or undecided); nil: not loaded
	replaySolver string
}

func shortPkg(path string) string {
	switch path {
	case repoMod:
		return "main"
	}
	i := strings.LastIndex(path, "/")
	return path[i+1:]
}

// droppedSpecFiles: contract files that do not type-check against the code as it is now (set by
// loadWorld); their clauses are not loaded, so that what they proved shows up as lost obligations.
var droppedSpecFiles = map[string]string{}

func loadWorld(repo string) (*World, error) {
	load := func(overlay map[string][]byte) ([]*packages.Package, []packages.Error, error) {
		cfg := &packages.Config{Mode: packages.LoadAllSyntax, Dir: repo, BuildFlags: []string{"-tags=verif"}, Overlay: overlay}
		pkgs, err := packages.Load(cfg, "./lexer", "./parser", "./transpiler", "./converters/bash", "./converters/batch", ".")
		if err != nil {
			return nil, nil, err
		}
		var errs []packages.Error
		packages.Visit(pkgs, nil, func(p *packages.Package) {
			errs = append(errs, p.Errors...)
		})
		return pkgs, errs, nil
	}
	pkgs, errs, err := load(nil)
	if err != nil {
		return nil, err
	}
	if len(errs) > 0 {
		// Do the errors all lie in contract files (the code itself builds, the spec functions written
		// against its old shape do not)?  Then load again with those files reduced to their package
		// clause: the rest of the repository can still be checked, and every obligation the dropped
		// contracts had proved is reported as no longer generated.
		overlay := map[string][]byte{}
		onlySpec := true
		for _, e := range errs {
			file := e.Pos
			if i := strings.Index(file, ":"); i >= 0 {
				file = file[:i]
			}
			if !strings.HasSuffix(file, "_verif.go") {
				onlySpec = false
				break
			}
			if !filepath.IsAbs(file) {
				file = filepath.Join(repo, file)
			}
			if _, done := overlay[file]; done {
				continue
			}
			data, rerr := os.ReadFile(file)
			if rerr != nil {
				onlySpec = false
				break
			}
			pkgName := "main"
			for _, ln := range strings.Split(string(data), "\n") {
				if strings.HasPrefix(ln, "package ") {
					pkgName = strings.TrimSpace(strings.TrimPrefix(ln, "package "))
					break
				}
			}
			overlay[file] = []byte("//go:build verif\n\npackage " + pkgName + "\n")
			droppedSpecFiles[file] = e.Msg
		}
		if onlySpec && len(overlay) > 0 {
			for f, msg := range droppedSpecFiles {
				fmt.Printf("CONTRACTS-DO-NOT-COMPILE %s: %s (its clauses are dropped for this run)\n", shortFile(f), msg)
			}
			pkgs, errs, err = load(overlay)
			if err != nil {
				return nil, err
			}
		}
	}
	nerr := 0
	for _, e := range errs {
		fmt.Println("LOAD ERROR:", e)
		nerr++
	}
	if nerr > 0 {
		return nil, fmt.Errorf("%d package load errors", nerr)
	}
	prog, spkgs := ssautil.AllPackages(pkgs, ssa.InstantiateGenerics|ssa.GlobalDebug)
	prog.Build()
	w := &World{prog: prog, pkgs: pkgs, spkgs: map[string]*ssa.Package{}, dts: map[string]*DT{},
		sortMemo: map[types.Type]string{}, dynCtor: map[string]string{}, structOf: map[string]*types.Named{},
		contracts: map[string]*FuncContract{}}
	for _, sp := range spkgs {
		if sp != nil {
			w.spkgs[shortPkg(sp.Pkg.Path())] = sp
		}
	}
	w.initBuiltinSorts()
	w.initDyn()
	// pre-register every named struct type of the repo packages (deterministic decl set)
	for _, name := range []string{"lexer", "parser", "transpiler", "bash", "batch", "main"} {
		sp := w.spkgs[name]
		if sp == nil {
			continue
		}
		var names []string
		for n := range sp.Members {
			names = append(names, n)
		}
		sort.Strings(names)
		for _, n := range names {
			if t, ok := sp.Members[n].(*ssa.Type); ok {
				w.sortOf(t.Type())
			}
		}
	}
	return w, nil
}

func (w *World) initBuiltinSorts() {
	// Err = err_nil | err_mk(msg)
	w.addDT(&DT{Name: "Err", Ctors: []*ctorInfo{
		{Name: "err_nil", DT: "Err"},
		{Name: "err_mk", DT: "Err", Sels: []string{"err_msg"}, Sorts: []string{"String"}},
	}})
}

func (w *World) addDT(d *DT) {
	if _, ok := w.dts[d.Name]; ok {
		return
	}
	w.dts[d.Name] = d
	w.dtOrder = append(w.dtOrder, d.Name)
	for _, c := range d.Ctors {
		registerCtor(c)
	}
}

func typeKey(t *types.Named) string {
	o := t.Obj()
	if o.Pkg() == nil {
		return o.Name()
	}
	return shortPkg(o.Pkg().Path()) + "." + o.Name()
}

func mangle(s string) string {
	r := strings.NewReplacer(".", "_", "(", "", ")", "", " ", "_", "[", "", "]", "", "*", "P", "/", "_")
	return r.Replace(s)
}

// initDyn computes the closed world of AST node types.
func (w *World) initDyn() {
	pp := w.spkgs["parser"]
	if pp == nil {
		return
	}
	scope := pp.Pkg.Scope()
	for _, n := range scope.Names() {
		if tn, ok := scope.Lookup(n).(*types.TypeName); ok {
			if named, ok := tn.Type().(*types.Named); ok {
				if _, isI := named.Underlying().(*types.Interface); isI {
					w.astIfaces = append(w.astIfaces, named)
				}
			}
		}
	}
	seen := map[string]bool{}
	for _, sp := range []*ssa.Package{w.spkgs["parser"], w.spkgs["transpiler"], w.spkgs["bash"], w.spkgs["batch"], w.spkgs["lexer"]} {
		if sp == nil {
			continue
		}
		sc := sp.Pkg.Scope()
		for _, n := range sc.Names() {
			tn, ok := sc.Lookup(n).(*types.TypeName)
			if !ok || tn.IsAlias() {
				continue
			}
			named, ok := tn.Type().(*types.Named)
			if !ok {
				continue
			}
			if _, isI := named.Underlying().(*types.Interface); isI {
				continue
			}
			for _, it := range w.astIfaces {
				iface := it.Underlying().(*types.Interface)
				if iface.NumMethods() == 0 {
					continue
				}
				if types.Implements(named, iface) {
					k := typeKey(named)
					if !seen[k] {
						seen[k] = true
						w.dynTypes = append(w.dynTypes, named)
					}
					break
				}
			}
		}
	}
	sort.Slice(w.dynTypes, func(i, j int) bool { return typeKey(w.dynTypes[i]) < typeKey(w.dynTypes[j]) })
	d := &DT{Name: "Dyn"}
	d.Ctors = append(d.Ctors, &ctorInfo{Name: "dyn_nil", DT: "Dyn"})
	for _, t := range w.dynTypes {
		k := typeKey(t)
		cn := "dyn_" + mangle(k)
		w.dynCtor[k] = cn
		// payload sort is computed lazily (struct datatypes may refer back to Dyn)
		d.Ctors = append(d.Ctors, &ctorInfo{Name: cn, DT: "Dyn", Sels: []string{"un_" + mangle(k)}, Sorts: []string{"S_" + mangle(k)}})
	}
	w.addDT(d)
	for _, t := range w.dynTypes {
		w.sortOf(t)
	}
}

func (w *World) isASTIface(t types.Type) bool {
	n, ok := t.(*types.Named)
	if !ok {
		return false
	}
	for _, i := range w.astIfaces {
		if i == n || types.Identical(i, n) {
			return true
		}
	}
	return false
}

// implementers returns the Dyn constructors whose type implements iface.
func (w *World) implementers(iface *types.Interface) []*types.Named {
	var out []*types.Named
	for _, t := range w.dynTypes {
		if types.Implements(t, iface) {
			out = append(out, t)
		}
	}
	return out
}

func arraySort(elem string) string { return "(Array Int " + elem + ")" }

// sortOf maps a Go type to an SMT sort name, registering datatypes on demand.
func (w *World) sortOf(t types.Type) string {
	if s, ok := w.sortMemo[t]; ok {
		return s
	}
	s := w.sortOf1(t)
	w.sortMemo[t] = s
	return s
}

func (w *World) sortOf1(t types.Type) string {
	switch tt := t.(type) {
	case *types.Alias:
		return w.sortOf(types.Unalias(tt))
	case *types.Basic:
		switch {
		case tt.Info()&types.IsBoolean != 0:
			return "Bool"
		case tt.Info()&types.IsInteger != 0:
			return "Int"
		case tt.Info()&types.IsString != 0:
			return "String"
		case tt.Kind() == types.UntypedNil:
			return "Opaque"
		}
		return "Opaque"
	case *types.Named:
		switch u := tt.Underlying().(type) {
		case *types.Struct:
			if tt.Obj().Pkg() != nil && !strings.HasPrefix(tt.Obj().Pkg().Path(), repoMod) {
				// a struct type of a library (os.File, atomic.Pointer[T], ...): never taken apart by the
				// functions under contract, and its fields (blank fields, generic instances) need not
				// have distinct names -- an opaque value
				return "Opaque"
			}
			name := "S_" + mangle(typeKey(tt))
			if _, ok := w.dts[name]; !ok {
				w.sortMemo[t] = name
				w.declStruct(name, u, tt)
			}
			return name
		case *types.Interface:
			if tt.Obj().Pkg() == nil && tt.Obj().Name() == "error" {
				return "Err"
			}
			if w.isASTIface(tt) {
				return "Dyn"
			}
			return "Opaque"
		default:
			return w.sortOf(u)
		}
	case *types.Struct:
		name := "S_anon_" + mangle(fmt.Sprint(len(w.dts)))
		w.sortMemo[t] = name
		w.declStruct(name, tt, nil)
		return name
	case *types.Slice:
		return w.sliceSort(tt.Elem())
	case *types.Array:
		return w.sliceSort(tt.Elem())
	case *types.Map:
		w.mapSort(tt)
		return "Int"
	case *types.Pointer:
		if _, ok := tt.Elem().Underlying().(*types.Struct); ok {
			es := w.sortOf(tt.Elem())
			name := "Ptr_" + es
			if _, ok := w.dts[name]; !ok {
				w.addDT(&DT{Name: name, Ctors: []*ctorInfo{
					{Name: "nil_" + name, DT: name},
					{Name: "box_" + name, DT: name, Sels: []string{"unbox_" + name}, Sorts: []string{es}},
				}})
			}
			return name
		}
		return "Opaque"
	case *types.Interface:
		return "Opaque"
	case *types.Signature:
		return "Opaque"
	case *types.Tuple:
		return "Opaque"
	}
	return "Opaque"
}

func (w *World) declStruct(name string, u *types.Struct, named *types.Named) {
	d := &DT{Name: name}
	c := &ctorInfo{Name: "mk_" + name, DT: name}
	d.Ctors = []*ctorInfo{c}
	// register before visiting fields (recursion through Dyn / slices)
	w.dts[name] = d
	w.dtOrder = append(w.dtOrder, name)
	for i := 0; i < u.NumFields(); i++ {
		f := u.Field(i)
		fname := f.Name()
		if fname == "_" {
			fname = fmt.Sprintf("_blank%d", i) // blank fields share the name "_"
		}
		c.Sels = append(c.Sels, name+"__"+fname)
		c.Sorts = append(c.Sorts, w.sortOf(f.Type()))
	}
	registerCtor(c)
	if named != nil {
		w.structOf[name] = named
	}
}

func sliceSortName(elemSort string) string { return "Sl_" + mangle(elemSort) }

func (w *World) sliceSort(elem types.Type) string {
	es := w.sortOf(elem)
	return w.sliceSortOfElemSort(es)
}

func (w *World) sliceSortOfElemSort(es string) string {
	name := sliceSortName(es)
	if strings.HasPrefix(es, "(Array") {
		name = "Sl_arr_" + mangle(es)
	}
	if _, ok := w.dts[name]; !ok {
		w.addDT(&DT{Name: name, Ctors: []*ctorInfo{
			{Name: "mk_" + name, DT: name, Sels: []string{name + "_arr", name + "_len", name + "_nil"},
				Sorts: []string{arraySort(es), "Int", "Bool"}},
		}})
	}
	return name
}

// mapSort declares the content datatype of map[K]V and returns its name.
func (w *World) mapSort(m *types.Map) string {
	ks, vs := w.sortOf(m.Key()), w.sortOf(m.Elem())
	name := "Mp_" + mangle(ks) + "_" + mangle(vs)
	if _, ok := w.dts[name]; !ok {
		w.addDT(&DT{Name: name, Ctors: []*ctorInfo{
			{Name: "mk_" + name, DT: name, Sels: []string{name + "_has", name + "_val"},
				Sorts: []string{"(Array " + ks + " Bool)", "(Array " + ks + " " + vs + ")"}},
		}})
	}
	return name
}

func (w *World) structFieldSel(structSort string, field string) string {
	return structSort + "__" + field
}

// declText renders every registered datatype in one block.
func (w *World) declText() string {
	var heads, bodies []string
	for _, n := range w.dtOrder {
		d := w.dts[n]
		heads = append(heads, "("+d.Name+" 0)")
		var cs []string
		for _, c := range d.Ctors {
			if len(c.Sels) == 0 {
				cs = append(cs, "("+c.Name+")")
				continue
			}
			var fs []string
			for i := range c.Sels {
				fs = append(fs, "("+c.Sels[i]+" "+c.Sorts[i]+")")
			}
			cs = append(cs, "("+c.Name+" "+strings.Join(fs, " ")+")")
		}
		bodies = append(bodies, "("+strings.Join(cs, " ")+")")
	}
	return "(declare-sort Opaque 0)\n(declare-datatypes (" + strings.Join(heads, " ") + ") (\n  " + strings.Join(bodies, "\n  ") + "\n))\n"
}

// zero returns the zero value of a Go type as a term.
func (w *World) zero(t types.Type) *Term {
	s := w.sortOf(t)
	return w.zeroOfSort(s, t)
}

func (w *World) zeroOfSort(s string, t types.Type) *Term {
	switch s {
	case "Int":
		return IntT(0)
	case "Bool":
		return False
	case "String":
		return StrT("")
	case "Dyn":
		return Mk("dyn_nil")
	case "Err":
		return Mk("err_nil")
	case "Opaque":
		return VarT("opaque_nil", "Opaque")
	}
	d := w.dts[s]
	if d == nil {
		return VarT("opaque_nil", "Opaque")
	}
	if strings.HasPrefix(s, "Sl_") {
		c := d.Ctors[0]
		elemSort := strings.TrimSuffix(strings.TrimPrefix(c.Sorts[0], "(Array Int "), ")")
		return Mk(c.Name, w.constArray(elemSort), IntT(0), True)
	}
	if strings.HasPrefix(s, "Ptr_") {
		return Mk("nil_" + s)
	}
	c := d.Ctors[0]
	var args []*Term
	var st *types.Struct
	if t != nil {
		st, _ = t.Underlying().(*types.Struct)
	}
	for i, fs := range c.Sorts {
		var ft types.Type
		if st != nil && i < st.NumFields() {
			ft = st.Field(i).Type()
		}
		args = append(args, w.zeroOfSort(fs, ft))
	}
	return Mk(c.Name, args...)
}

func (w *World) constArray(elemSort string) *Term {
	// an unconstrained array: contents beyond len are never observable
	return VarT("arr0_"+mangle(elemSort), arraySort(elemSort))
}

func elemSortOfSlice(w *World, sliceSort string) string {
	d := w.dts[sliceSort]
	c := d.Ctors[0]
	return strings.TrimSuffix(strings.TrimPrefix(c.Sorts[0], "(Array Int "), ")")
}

func slArr(sl *Term) *Term { return Sel(sl.Sort+"_arr", sl) }
func slLen(sl *Term) *Term { return Sel(sl.Sort+"_len", sl) }
func slNil(sl *Term) *Term { return Sel(sl.Sort+"_nil", sl) }
func mkSlice(sortName string, arr, ln, isnil *Term) *Term {
	return Mk("mk_"+sortName, arr, ln, isnil)
}

func funcKey(f *ssa.Function) string {
	if f == nil {
		return "<nil>"
	}
	name := f.Name()
	if recv := f.Signature.Recv(); recv != nil {
		rt := recv.Type()
		ptr := ""
		if p, ok := rt.(*types.Pointer); ok {
			rt = p.Elem()
			ptr = "*"
		}
		if n, ok := rt.(*types.Named); ok {
			return shortPkg(n.Obj().Pkg().Path()) + ".(" + ptr + n.Obj().Name() + ")." + name
		}
	}
	if f.Parent() != nil {
		return funcKey(f.Parent()) + "$" + strings.TrimPrefix(name, f.Parent().Name()+"$")
	}
	if f.Pkg != nil {
		return shortPkg(f.Pkg.Pkg.Path()) + "." + name
	}
	if f.Object() != nil && f.Object().Pkg() != nil {
		return f.Object().Pkg().Path() + "." + name
	}
	return name
}

func (w *World) inRepo(f *ssa.Function) bool {
	var p *types.Package
	if f.Pkg != nil {
		p = f.Pkg.Pkg
	} else if f.Object() != nil {
		p = f.Object().Pkg()
	} else if f.Parent() != nil {
		return w.inRepo(f.Parent())
	}
	if p == nil {
		// synthetic wrappers / bound methods
		if f.Synthetic != "" {
			return true
		}
		return false
	}
	return strings.HasPrefix(p.Path(), repoMod)
}

// recvInvFor returns the receiver-invariant clauses applying to fn (methods with
// a pointer receiver of an annotated type; constructors are exempt).
func (w *World) recvInvFor(fn *ssa.Function) ([]*Clause, string) {
	if len(fn.Params) == 0 || fn.Signature.Recv() == nil {
		return nil, ""
	}
	pt, ok := fn.Signature.Recv().Type().(*types.Pointer)
	if !ok {
		return nil, ""
	}
	n, ok := pt.Elem().(*types.Named)
	if !ok {
		return nil, ""
	}
	cs := w.recvInv[typeKey(n)]
	if len(cs) == 0 {
		return nil, ""
	}
	if fc := w.contracts[funcKey(fn)]; fc != nil && fc.Flags["noinvariant"] {
		return nil, ""
	}
	return cs, fn.Params[0].Name()
}

// commonPostFor: postconditions shared by all methods of the receiver type.
func (w *World) commonPostFor(fn *ssa.Function) []*Clause {
	if len(fn.Params) == 0 || fn.Signature.Recv() == nil || fn.Parent() != nil {
		return nil
	}
	rt := fn.Signature.Recv().Type()
	if pt, ok := rt.(*types.Pointer); ok {
		rt = pt.Elem()
	}
	n, ok := rt.(*types.Named)
	if !ok {
		return nil
	}
	cs := w.commonPost[typeKey(n)]
	if len(cs) == 0 {
		return nil
	}
	if fc := w.contracts[funcKey(fn)]; fc != nil && fc.Flags["nocommon"] {
		return nil
	}
	return cs
}

// typeInvFor: invariant clauses of a named struct type (nil if none).
func (w *World) typeInvFor(t types.Type) []*Clause {
	n, ok := t.(*types.Named)
	if !ok {
		return nil
	}
	return w.typeInv[typeKey(n)]
}

// checkedInContext: an anonymous function whose every use is being passed directly to a repo
// function that checks function-valued arguments (param clauses, type-wide postconditions or
// receiver invariants) or is inlined is verified where it is passed, under what that callee
// promises about the arguments; it is not verified a second time as a free-standing root.
func (w *World) checkedInContext(fn *ssa.Function) bool {
	parent := fn.Parent()
	if parent == nil || parent.Parent() != nil {
		return false
	}
	okCall := func(call *ssa.Call, v ssa.Value) bool {
		callee := call.Call.StaticCallee()
		if callee == nil || !w.inRepo(callee) || call.Call.Value == v {
			return false
		}
		fc := w.contracts[funcKey(callee)]
		invs, _ := w.recvInvFor(callee)
		has := len(w.commonPostFor(callee)) > 0 || len(invs) > 0
		if fc != nil && fc.Flags["inline"] {
			// the callee's body, and with it every call of the function value, runs in the
			// parent's own symbolic execution
			has = true
		}
		if fc != nil {
			for _, cs := range fc.Params {
				if len(cs) > 0 {
					has = true
				}
			}
		}
		return has
	}
	found := false
	for _, b := range parent.Blocks {
		for _, ins := range b.Instrs {
			if mc, ok := ins.(*ssa.MakeClosure); ok && mc.Fn == ssa.Value(fn) {
				refs := mc.Referrers()
				if refs == nil {
					return false
				}
				for _, r := range *refs {
					if _, isDbg := r.(*ssa.DebugRef); isDbg {
						continue
					}
					call, ok := r.(*ssa.Call)
					if !ok || !okCall(call, mc) {
						return false
					}
					found = true
				}
				continue
			}
			// a function literal without captured variables is used as a plain value
			uses := false
			for _, op := range ins.Operands(nil) {
				if op != nil && *op == ssa.Value(fn) {
					uses = true
				}
			}
			if !uses {
				continue
			}
			if _, isDbg := ins.(*ssa.DebugRef); isDbg {
				continue
			}
			call, ok := ins.(*ssa.Call)
			if !ok || !okCall(call, fn) {
				return false
			}
			found = true
		}
	}
	return found
}

// paramInvsFor: invariants that hold of the i-th by-value parameter of fn: the type invariants
// of its type and, for a value receiver, the receiver invariants of that type.
func (w *World) paramInvsFor(fn *ssa.Function, i int) []*Clause {
	if i >= len(fn.Params) {
		return nil
	}
	out := w.typeInvFor(fn.Params[i].Type())
	if n, ok := fn.Params[i].Type().(*types.Named); ok && len(w.nodeInv[typeKey(n)]) > 0 {
		out = append(append([]*Clause{}, out...), w.nodeInv[typeKey(n)]...)
	}
	if i == 0 && fn.Signature.Recv() != nil {
		if n, ok := fn.Signature.Recv().Type().(*types.Named); ok {
			out = append(append([]*Clause{}, out...), w.recvInv[typeKey(n)]...)
		}
	}
	return out
}

func (w *World) inRepoPkg(p *ssa.Package) bool {
	return p != nil && p.Pkg != nil && strings.HasPrefix(p.Pkg.Path(), repoMod)
}
