#!/bin/bash
# seedimport.sh <ID> : copy /tmp/seed/<ID>/out/<k>/ into /verif/seeded/<ID>-<n> (next free numbers), print the new dirs
ID=$1
cd /verif/seeded
for k in 1 2 3; do
  src=/tmp/seed/$ID/out/$k
  [ -f $src/patch.diff ] || continue
  n=1; while [ -e $ID-$n ]; do n=$((n+1)); done
  mkdir $ID-$n; cp -r $src/. $ID-$n/
  echo seeded/$ID-$n
done
