package main

// Per-property metadata used in the evidence files.

var propLevel = map[string]string{
	"C01": "proof", "C02": "proof", "C03": "other", "C04": "proof", "C05": "proof", "C06": "proof", "C07": "proof",
	"C08": "proof", "C09": "proof", "C10": "proof", "C11": "other", "C12": "other", "C13": "proof", "C14": "other",
	"C16": "proof", "C17": "other", "C18": "other", "C19": "proof",
}

func levelOf(p string) string {
	if l, ok := propLevel[p]; ok {
		return l
	}
	return "other"
}

var shellTrust = "the shell meaning of every emitted template (spec/shell_facts.md): proved is that the Go code emits the templates the spec functions describe, not what /bin/bash or cmd.exe does with them"

var propExplain = map[string]string{
	"C01": "Go-side obligations of the Bash scalar fragment: operator tables, helper freshness, template equality with spec functions written from the Bash manual, precedence chain. " + shellTrust,
	"C02": "Go-side obligations of calls/frames: mangling, parameter binding lines, return registers, argument order. " + shellTrust,
	"C03": "Go-side obligations of slice/string templates and subscript rewriting; run-time behaviour of the pinned helper routines is trusted, not proved.",
	"C04": "order and multiplicity of evaluateExpression / converter calls per transpiler function as ghost event-log postconditions (calls/arg/res/seq).",
	"C05": "Go-side obligations of the Batch converter: operator tables, label allocation invariants, call protocol; cmd.exe semantics are trusted.",
	"C06": "typing judgement as postconditions of parser functions (accepted implies well-typed at the node), operator tables both ways, converter second line of defence.",
	"C07": "context cloning / scope stack / definition checks as postconditions and frames over the map heap.",
	"C08": "per emitting site: the emitted line as an SMT string with symbolic operands satisfies the quoting predicates; lexer char fidelity.",
	"C09": "call-graph bookkeeping, merge, reachability closure and prefixed naming as postconditions.",
	"C10": "every compiler-owned name emitted by the converters lies in the reserved language; user names are checked against it.",
	"C11": "proved part: char, table lemmas, Tokenize safety and position step clauses; the functional longest-match specification is not proved.",
	"C12": "single-run sufficient conditions (newline tolerance per site, CRLF normalisation); the two-run theorem is argued in DESIGN.md, not machine-checked.",
	"C13": "zero-annotation safety sweep over every function of the five packages plus tsh.go: index/slice bounds, nil map writes, nil dereference, failed type assertions, division by zero, reachable panics; Transpile result shape.",
	"C14": "single-run sufficient conditions: no writes to package-level state, no output ordered by map iteration, Transpile's result independent of the transpiler object's previous state.",
	"C16": "structural protocol of the emitters: balanced openers/closers, label definitions unique and present, helpers emitted iff flagged.",
	"C17": "Go-side obligations of write/read/exists templates and argument order; file-system effects are Bash's and trusted.",
	"C18": "word-level shape of emitted command lines, pipeline assembly, capture protocol.",
	"C19": "contracts on parseOptions and main of tsh.go with os/filepath uninterpreted.",
}

func explanationOf(p string) string { return propExplain[p] }

func trustedBase(p string) []string {
	tb := []string{
		"govc (this repository's verifier: go/ssa symbolic executor + VC generator) is unverified",
		"go/packages, go/types, go/ssa (golang.org/x/tools v0.29.0)",
		"z3 5.1.0, z3 4.8.12, cvc5 1.0.3",
		"library models listed under assumptions",
	}
	switch p {
	case "C01", "C02", "C03", "C05", "C08", "C16", "C17", "C18":
		tb = append(tb, shellTrust)
	}
	return tb
}

func propertyAssumptions(p string) []string {
	switch p {
	case "C01", "C02", "C03", "C05", "C08", "C16", "C17", "C18":
		return []string{"shell facts (spec/shell_facts.md) are assumed, never proved"}
	}
	return nil
}
