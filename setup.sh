#!/bin/bash
# Builds the verifier from the files in /verif/govc, offline.
set -e
cd "$(dirname "$0")"
export GOFLAGS=-mod=mod GOPROXY=off GOSUMDB=off GOTOOLCHAIN=local CGO_ENABLED=0
mkdir -p bin
(cd govc && cp /repo/go.sum . 2>/dev/null || true; go build -o ../bin/govc .)
for s in z3 z3-new cvc5; do
  command -v $s >/dev/null || { echo "missing solver $s"; exit 1; }
done
echo "(check-sat)" > bin/.probe.smt2
for s in z3 z3-new; do $s bin/.probe.smt2 | grep -q sat || { echo "$s does not answer"; exit 1; }; done
cvc5 bin/.probe.smt2 2>/dev/null | grep -q sat || { echo "cvc5 does not answer"; exit 1; }
rm -f bin/.probe.smt2
echo "setup ok"
