#!/bin/bash
# benignall.sh : every benign edit through benigncheck.sh, one after the other; results in /tmp/benign/
mkdir -p /tmp/benign
for f in /verif/benign/*.diff; do
  n=$(basename $f .diff)
  /verif/benigncheck.sh $f > /tmp/benign/$n.txt 2>&1
  echo "$n: $(grep '^RESULT\|^CONFIRM' /tmp/benign/$n.txt | tr '\n' ' ')"
done
