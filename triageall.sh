#!/bin/bash
# triageall.sh <parallel> <seed dirs...> : seedtriage.sh for each, results in /tmp/triage/<seed>.txt
P=$1; shift
mkdir -p /tmp/triage
printf '%s\n' "$@" | xargs -P $P -I{} sh -c '/verif/seedtriage.sh /verif/seeded/{} > /tmp/triage/{}.txt 2>&1; echo "{}: $(grep "^RESULT\|^CONFIRM" /tmp/triage/{}.txt | tr "\n" " ")"'
