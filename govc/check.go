package main

// The `check` and `ledger` commands: run the obligations of one property,
// compare with the committed ledger and known findings, write evidence.

import (
	"crypto/sha1"
	"go/ast"
	"encoding/json"
	"flag"
	"fmt"
	"os"
	"path/filepath"
	"regexp"
	"sort"
	"strconv"
	"strings"
	"time"

	"golang.org/x/tools/go/ssa"
)

type LedgerEntry struct {
	Name   string  `json:"name"`
	Insts  int     `json:"instances"`
	Solver string  `json:"solver"`
	Secs   float64 `json:"max_secs"`
}

type Ledger struct {
	Property    string        `json:"property"`
	Generated   string        `json:"generated"`
	Obligations []LedgerEntry `json:"obligations"`
	Undecided   []string      `json:"undecided_on_unchanged_tree"`
	// contract errors that exist on the unchanged tree already (they say nothing about a change)
	ContractErrs []string `json:"contract_errors_on_unchanged_tree,omitempty"`
	// number of loops of every function that has loop clauses in the ledger (a smaller number later
	// means that a loop was removed, not renamed)
	LoopCounts map[string]int `json:"loop_counts,omitempty"`
}

// loopCount: the number of loops of the function with that key (-1 if there is no such function).
func (w *World) loopCount(fkey string) int {
	for _, f := range w.findFuncs("") {
		if funcKey(f) == fkey {
			if li := loopInfoFor(f); li != nil {
				return len(li.loops)
			}
			return 0
		}
	}
	return -1
}

var ceFileRe = regexp.MustCompile(`CONTRACT-ERROR\s+\S*?([A-Za-z0-9_/]*zz_[a-z_]*verif\.go):(\d+)`)

// normalizeCE strips the repository path and the line number from a contract error note, so that the
// same error is recognised in a scratch copy of the repository and after lines have shifted.
func normalizeCE(note string) string {
	note = strings.TrimSpace(note)
	if m := ceFileRe.FindStringSubmatchIndex(note); m != nil {
		file := note[m[2]:m[3]]
		if i := strings.LastIndex(file, "/"); i >= 0 {
			// keep the package directory and the file name
			if j := strings.LastIndex(file[:i], "/"); j >= 0 {
				file = file[j+1:]
			}
		}
		return "CONTRACT-ERROR " + file + note[m[5]:]
	}
	return note
}

type Finding struct {
	Kind     string // finding | fixed
	Property string
	Obl      string
	Text     string
	Commit   string
	Witness  string
}

var loopOrdRe = regexp.MustCompile(`^loop\d+:`)
var findingRe = regexp.MustCompile(`^(finding|fixed):\s+property=(C\d+)\s+(?:commit=(\S+)\s+)?obligation=(\S+)\s+(?:witness=(\S+)\s+)?"(.*)"\s*$`)

var loopKeyWordRe = regexp.MustCompile(`[A-Za-z][A-Za-z0-9]*`)

// identsStillInFunc: does every identifier of a loop key (header text with blanks written as
// underscores) still occur in the source of the function?
func (w *World) identsStillInFunc(fkey, loopKey string) bool {
	var fn *ssa.Function
	for _, f := range w.findFuncs("") {
		if funcKey(f) == fkey {
			fn = f
		}
	}
	if fn == nil || fn.Syntax() == nil {
		return false
	}
	have := map[string]bool{}
	fieldUse := map[*ast.Ident]bool{}
	ast.Inspect(fn.Syntax(), func(n ast.Node) bool {
		if se, ok := n.(*ast.SelectorExpr); ok {
			fieldUse[se.Sel] = true // x.name: the field or method name says nothing about a local of that name
		}
		if id, ok := n.(*ast.Ident); ok && !fieldUse[id] {
			have[id.Name] = true
		}
		return true
	})
	for _, loc := range loopKeyWordRe.FindAllStringIndex(loopKey, -1) {
		wd := loopKey[loc[0]:loc[1]]
		if loc[0] > 0 && loopKey[loc[0]-1] == '.' {
			continue // a field or method name in the header text
		}
		switch wd {
		case "for", "range", "len", "nil", "true", "false":
			continue
		}
		if !have[wd] {
			return false
		}
	}
	return true
}

func loadFindings(path string) ([]Finding, error) {
	data, err := os.ReadFile(path)
	if err != nil {
		if os.IsNotExist(err) {
			return nil, nil
		}
		return nil, err
	}
	var out []Finding
	for i, ln := range strings.Split(string(data), "\n") {
		t := strings.TrimSpace(ln)
		if t == "" || strings.HasPrefix(t, "#") {
			continue
		}
		m := findingRe.FindStringSubmatch(t)
		if m == nil {
			return nil, fmt.Errorf("%s:%d: cannot parse finding line", path, i+1)
		}
		out = append(out, Finding{Kind: m[1], Property: m[2], Commit: m[3], Obl: m[4], Witness: m[5], Text: m[6]})
	}
	return out, nil
}

func hasProp(props []string, p string) bool {
	for _, q := range props {
		if q == p {
			return true
		}
	}
	return false
}

// functionsFor selects the functions to analyse for a property.
func (w *World) functionsFor(prop string) []*ssa.Function {
	var out []*ssa.Function
	for _, f := range w.findFuncs("") {
		if strings.HasPrefix(f.Name(), "spec") || strings.HasPrefix(f.Name(), "init") {
			continue
		}
		key := funcKey(f)
		if w.checkedInContext(f) {
			continue
		}
		if prop == "C13" {
			out = append(out, f)
			continue
		}
		shared := false
		for _, c := range w.commonPostFor(f) {
			if hasProp(c.Props, prop) {
				shared = true
			}
		}
		if cs, _ := w.recvInvFor(f); len(cs) > 0 {
			for _, c := range cs {
				if hasProp(c.Props, prop) {
					shared = true
				}
			}
		}
		fc := w.contracts[key]
		if shared || (fc != nil && fc.mentions(prop)) {
			out = append(out, f)
		}
	}
	return out
}

func (fc *FuncContract) mentions(prop string) bool {
	for _, c := range fc.Ensures {
		if hasProp(c.Props, prop) {
			return true
		}
	}
	for _, c := range fc.Requires {
		if hasProp(c.Props, prop) {
			return true
		}
	}
	for _, cs := range fc.Loops {
		for _, c := range cs {
			if hasProp(c.Props, prop) {
				return true
			}
		}
	}
	for _, c := range fc.Lemmas {
		if hasProp(c.Props, prop) {
			return true
		}
	}
	for _, cs := range fc.LoopsByText {
		for _, c := range cs {
			if hasProp(c.Props, prop) {
				return true
			}
		}
	}
	for _, cs := range fc.CallSites {
		for _, c := range cs {
			if hasProp(c.Props, prop) {
				return true
			}
		}
	}
	for _, cs := range fc.Params {
		for _, c := range cs {
			if hasProp(c.Props, prop) {
				return true
			}
		}
	}
	return false
}

type NamedResult struct {
	Name    string
	Kind    string
	Insts   []*Obl
	Status  string // discharged | sat | unknown | timeout | error
	Worst   *Obl
	MaxSecs float64
	Solver  string
	replayed bool
}

func aggregate(obls []*Obl) map[string]*NamedResult {
	res := map[string]*NamedResult{}
	for _, o := range obls {
		r := res[o.Name]
		if r == nil {
			r = &NamedResult{Name: o.Name, Kind: o.Kind, Status: "discharged"}
			res[o.Name] = r
		}
		r.Insts = append(r.Insts, o)
		if o.Time > r.MaxSecs {
			r.MaxSecs = o.Time
		}
		if o.Status == "unsat" {
			if r.Solver == "" {
				r.Solver = strings.TrimSuffix(o.Solver, "(cached)")
			}
			continue
		}
		if o.Status == "" {
			continue // not solved in this run
		}
		// precedence: sat > error > unknown/timeout
		if r.Status == "discharged" || (o.Status == "sat" && r.Status != "sat") || (r.Status == "not-attempted" && o.Status != "not-attempted") {
			r.Status = o.Status
			r.Worst = o
		}
	}
	return res
}

type runOutput struct {
	results  map[string]*NamedResult
	funcs    []*FuncResult
	nobls    int
	solverSecs map[string]float64
	solverCount map[string]int
	libs     map[string]bool
	assumed  map[string]bool
	notes    []string
	contractErrs int
	outside  map[string]string
	stale    map[string]string // functions whose contract names an identifier that no longer exists
}

func (w *World) runProperty(prop string, tmo int, dir string, only map[string]bool, shortTmo int) *runOutput {
	return w.runPropertySkip(prop, tmo, dir, only, shortTmo, nil)
}

func (w *World) runPropertySkip(prop string, tmo int, dir string, only map[string]bool, shortTmo int, skip map[string]bool) *runOutput {
	out := &runOutput{libs: map[string]bool{}, assumed: map[string]bool{}, outside: map[string]string{}, solverSecs: map[string]float64{}, solverCount: map[string]int{}}
	var all []*Obl
	for _, f := range w.functionsFor(prop) {
		r := w.verifyFunc(f)
		out.funcs = append(out.funcs, r)
		out.contractErrs += r.ContractErrs
		for _, n := range r.Notes {
			if strings.HasPrefix(n, "CONTRACT-ERROR") {
				out.notes = append(out.notes, n)
				if strings.Contains(n, "unknown identifier") {
					if out.stale == nil {
						out.stale = map[string]string{}
					}
					out.stale[r.Key] = n
				}
			}
		}
		if r.Outside != "" {
			out.outside[r.Key] = r.Outside
		}
		for _, l := range r.Libs {
			out.libs[l] = true
		}
		for _, a := range r.Assumed {
			out.assumed[a] = true
		}
		for _, o := range r.Obls {
			if hasProp(o.Props, prop) {
				all = append(all, o)
			}
		}
	}
	for _, o := range w.lemmaObligations(prop) {
		all = append(all, o)
	}
	if prop == "C14" {
		for _, f := range w.findFuncs("") {
			if f.Pkg != nil && f.Pkg.Pkg.Name() == "main" {
				continue // the CLI's own messages are not part of the emitted script
			}
			all = append(all, w.mapOrderObligations(f)...)
		}
	}
	out.nobls = len(all)
	// solve ledger obligations with the full limit, others with the short one
	var main, rest, mid []*Obl
	for _, o := range all {
		if w.midNames[o.Name] && w.midTmo > 0 {
			// known findings: expected to fail; a short limit is enough to notice that one is repaired
			mid = append(mid, o)
		} else if only == nil || only[o.Name] {
			main = append(main, o)
		} else if skip[o.Name] {
			o.Status = "skipped"
			o.Solver = ""
		} else {
			rest = append(rest, o)
		}
	}
	w.solveAll(main, SolveOpts{Timeout: tmo, Dir: dir, Parallel: 16, CrossCheck: false, StopAfter: w.stopAfter})
	// second chance: a claimed obligation that ran into the time limit (no answer, no counter-model)
	// may only be the victim of a slow or busy machine.  If there are few of them they are solved again,
	// two at a time, with three times the limit, before anything is reported.
	if only != nil {
		var again []*Obl
		for _, o := range main {
			if (o.Status == "timeout" || o.Status == "unknown") && o.Kind != "vacuity" {
				again = append(again, o)
			}
		}
		if len(again) > 0 && len(again) <= 6 {
			for _, o := range again {
				if o.Text != "" {
					if data, err := os.ReadFile(o.Text); err == nil {
						sum := sha1.Sum(data)
						solveCache.Delete(fmt.Sprintf("%x", sum[:8]))
					}
				}
				o.Status, o.Solver = "", ""
			}
			w.solveAll(again, SolveOpts{Timeout: 3 * tmo, Dir: dir, Parallel: 2})
			for _, o := range again {
				out.notes = append(out.notes, fmt.Sprintf("  second chance (limit %ds): %s -> %s", 3*tmo, o.Name, o.Status))
			}
		}
	}
	if len(mid) > 0 {
		w.solveAll(mid, SolveOpts{Timeout: w.midTmo, Dir: dir, Parallel: 16})
	}
	if shortTmo > 0 {
		w.solveAll(rest, SolveOpts{Timeout: shortTmo, Dir: dir, Parallel: 16})
	}
	for _, o := range all {
		s := strings.TrimSuffix(o.Solver, "(cached)")
		if s != "" {
			out.solverSecs[s] += o.Time
			out.solverCount[s]++
		}
	}
	out.results = aggregate(all)
	return out
}

// lemmaObligations: closed goals stated in contract files.
func (w *World) lemmaObligations(prop string) []*Obl {
	var out []*Obl
	keys := make([]string, 0, len(w.contracts))
	for k := range w.contracts {
		keys = append(keys, k)
	}
	sort.Strings(keys)
	for _, k := range keys {
		fc := w.contracts[k]
		for _, c := range fc.Lemmas {
			if !hasProp(c.Props, prop) {
				continue
			}
			x := newExec(w, k)
			st := newState()
			env := x.newSpecEnv(st, st, w.anyFuncOfPkg(fc.Pkg))
			g, err := env.evalBool(c.Expr)
			if err != nil {
				fmt.Printf("CONTRACT-ERROR %s:%d %s: %v\n", shortFile(c.File), c.Line, c.Label, err)
				continue
			}
			out = append(out, &Obl{Name: k + "#lemma#" + c.Label, Func: k, Kind: "lemma", Label: c.Label, Props: c.Props, Assumes: st.pc.list(), Goal: g})
		}
	}
	return out
}

func (w *World) anyFuncOfPkg(pkg string) *ssa.Function {
	sp := w.spkgs[pkg]
	if sp == nil {
		return nil
	}
	var names []string
	for n, m := range sp.Members {
		if _, ok := m.(*ssa.Function); ok {
			names = append(names, n)
		}
	}
	sort.Strings(names)
	if len(names) == 0 {
		return nil
	}
	return sp.Func(names[0])
}

func cmdLedger(args []string) {
	fs := flag.NewFlagSet("ledger", flag.ExitOnError)
	repo := fs.String("repo", "/repo", "")
	prop := fs.String("prop", "", "")
	outDir := fs.String("out", "/verif/ledger", "")
	tmo := fs.Int("timeout", 20, "")
	maxSecs := fs.Float64("maxsecs", 4.0, "only obligations discharged within this time enter the ledger")
	fs.Parse(args)
	w := mustWorld(*repo)
	dir, _ := os.MkdirTemp("", "govc")
	defer os.RemoveAll(dir)
	ro := w.runProperty(*prop, *tmo, dir, nil, 0)
	led := Ledger{Property: *prop, Generated: time.Now().UTC().Format(time.RFC3339)}
	names := sortedResultNames(ro.results)
	nd := 0
	for _, n := range names {
		r := ro.results[n]
		if r.Status == "discharged" && r.MaxSecs <= *maxSecs {
			led.Obligations = append(led.Obligations, LedgerEntry{Name: n, Insts: len(r.Insts), Solver: r.Solver, Secs: round3(r.MaxSecs)})
			nd++
		} else {
			pos := ""
			if r.Worst != nil {
				pos = r.Worst.Pos
			}
			fmt.Printf("  not in ledger: %-9s %s [%s] %.1fs\n", r.Status, n, pos, r.MaxSecs)
			led.Undecided = append(led.Undecided, n)
		}
	}
	led.LoopCounts = map[string]int{}
	for _, e := range led.Obligations {
		parts := strings.SplitN(e.Name, "#", 3)
		if len(parts) == 3 && strings.HasPrefix(parts[2], "loop@") {
			if _, done := led.LoopCounts[parts[0]]; !done {
				led.LoopCounts[parts[0]] = w.loopCount(parts[0])
			}
		}
	}
	seenCE := map[string]bool{}
	for _, n := range ro.notes {
		fmt.Println(n)
		if strings.Contains(n, "CONTRACT-ERROR") && !seenCE[normalizeCE(n)] {
			seenCE[normalizeCE(n)] = true
			led.ContractErrs = append(led.ContractErrs, normalizeCE(n))
		}
	}
	for k, v := range ro.outside {
		fmt.Printf("  OUTSIDE %s: %s\n", k, v)
	}
	os.MkdirAll(*outDir, 0755)
	data, _ := json.MarshalIndent(led, "", " ")
	os.WriteFile(filepath.Join(*outDir, *prop+".json"), append(data, '\n'), 0644)
	fmt.Printf("ledger %s: %d of %d named obligations\n", *prop, nd, len(names))
}

func round3(f float64) float64 {
	v, _ := strconv.ParseFloat(fmt.Sprintf("%.3f", f), 64)
	return v
}

func sortedResultNames(m map[string]*NamedResult) []string {
	names := make([]string, 0, len(m))
	for n := range m {
		names = append(names, n)
	}
	sort.Strings(names)
	return names
}

func cmdCheck(args []string) {
	fs := flag.NewFlagSet("check", flag.ExitOnError)
	repo := fs.String("repo", "/repo", "")
	prop := fs.String("prop", "", "")
	tier := fs.String("tier", "quick", "")
	verif := fs.String("verif", "/verif", "")
	fs.Parse(args)
	start := time.Now()
	seed := 0
	if s := os.Getenv("VERIF_SEED"); s != "" {
		seed, _ = strconv.Atoi(s)
	}
	w, err := loadWorld(*repo)
	if err == nil {
		err = w.loadContracts(*repo)
	}
	if err != nil {
		// the tree does not load (does not compile with the verif tag): undecidable, not a violation
		fmt.Println("ERROR: cannot load /repo with -tags verif:", err)
		os.Exit(3)
	}
	tmo, shortT := 25, 2
	if *tier == "thorough" {
		tmo, shortT = 90, 30
	}
	var led Ledger
	if data, err := os.ReadFile(filepath.Join(*verif, "ledger", *prop+".json")); err == nil {
		json.Unmarshal(data, &led)
	}
	inLedger := map[string]bool{}
	for _, e := range led.Obligations {
		inLedger[e.Name] = true
	}
	findings, err := loadFindings(filepath.Join(*verif, "known_findings.txt"))
	if err != nil {
		fmt.Println("ERROR:", err)
		os.Exit(3)
	}
	knownObl := map[string]Finding{}
	for _, f := range findings {
		if f.Kind == "finding" && f.Property == *prop {
			knownObl[f.Obl] = f
		}
	}
	only := map[string]bool{}
	for n := range inLedger {
		only[n] = true
	}
	for n := range knownObl {
		only[n] = true
	}
	if *tier != "thorough" {
		w.stopAfter = 24
		w.midNames = map[string]bool{}
		for n := range knownObl {
			w.midNames[n] = true
		}
		w.midTmo = 8
	}
	skip := map[string]bool{}
	if *tier != "thorough" {
		// obligations that were already undecided on the unchanged tree are not re-attempted in the quick tier
		for _, n := range led.Undecided {
			if !only[n] {
				skip[n] = true
			}
		}
	}
	// every obligation name the unchanged tree is known to have, over all properties (see mayAssume)
	w.knownNames = map[string]bool{}
	if files, err := filepath.Glob(filepath.Join(*verif, "ledger", "C*.json")); err == nil {
		for _, lf := range files {
			data, err := os.ReadFile(lf)
			if err != nil {
				continue
			}
			var l Ledger
			if json.Unmarshal(data, &l) != nil {
				continue
			}
			for _, o := range l.Obligations {
				w.knownNames[o.Name] = true
			}
			for _, n := range l.Undecided {
				w.knownNames[n] = true
			}
		}
	}
	dir, _ := os.MkdirTemp("", "govc")
	defer os.RemoveAll(dir)
	ro := w.runPropertySkip(*prop, tmo, dir, only, shortT, skip)

	// a contract error that the unchanged tree has already says nothing about the change under test: it
	// must not turn failures of that function into "stale contract, undecided"
	baseCE := map[string]bool{}
	for _, n := range led.ContractErrs {
		baseCE[n] = true
	}
	for k, note := range ro.stale {
		if baseCE[normalizeCE(note)] {
			delete(ro.stale, k)
		}
	}
	replayDir := filepath.Join(*verif, "replay", *prop)
	violations := 0
	var undecided, unattached, knownHit []string
	newSafetyReplays := 0
	notAttempted := 0
	discharged := 0
	claimed := 0
	names := sortedResultNames(ro.results)
	var slow []map[string]interface{}
	for _, n := range names {
		r := ro.results[n]
		_, isKnown := knownObl[n]
		switch {
		case isKnown:
			if r.Status != "discharged" {
				f := knownObl[n]
				fmt.Printf("KNOWN-FINDING: property=%s %s (%s)\n", *prop, f.Text, n)
				knownHit = append(knownHit, n)
			}
		case inLedger[n]:
			claimed++
			if r.Status == "discharged" {
				discharged++
			} else if r.Status == "not-attempted" {
				notAttempted++
			} else if r.Kind == "vacuity" && r.Status != "sat" {
				// a vacuity guard asks the solver for a model; only the answer "there is none" (contradictory
				// assumptions, no reachable return) is a finding -- running out of time looking for one is not
				fmt.Printf("NOTE vacuity guard not decided this time (%s): %s\n", r.Status, n)
				undecided = append(undecided, n)
				claimed--
			} else if why, isStale := ro.stale[strings.SplitN(n, "#", 2)[0]]; isStale {
				// the function's contract refers to a name that no longer exists (a renamed local or
				// parameter): its clauses cannot be stated, so what depended on them is undecided, not refuted
				fmt.Printf("STALE-CONTRACT property=%s obligation=%s status=%s (%s)\n", *prop, n, r.Status, strings.TrimSpace(strings.TrimPrefix(why, "CONTRACT-ERROR")))
				undecided = append(undecided, n)
				claimed--
			} else {
				violations++
				path := writeReplay(replayDir, *prop, r, w)
				suffix := ""
				if !r.replayed {
					suffix = " no-failing-input-found"
				}
				fmt.Printf("VIOLATION property=%s replay=%s obligation=%s status=%s%s\n", *prop, path, n, r.Status, suffix)
			}
		case r.Kind == "map-order" && r.Status != "discharged":
			// the map-order analysis is decidable and passes for every map range of the unchanged
			// tree: a new failing loop is a violation even though its name is not in the ledger
			violations++
			path := writeReplay(replayDir, *prop, r, w)
			fmt.Printf("VIOLATION property=%s replay=%s obligation=%s status=%s no-failing-input-found\n", *prop, path, n, r.Status)
		case r.Kind == "safety" && (r.Status == "sat" || r.Status == "unknown" || r.Status == "timeout") && !w.knownNames[n] && newSafetyReplays < 3 && r.Worst != nil:
			// (without a model from the solver the search for an input uses the relaxed, quantifier-free query)
			r.Worst.forceReplay = true
			// a safety obligation that the unchanged tree does not have (new code) and that has a
			// counter-model: a violation if -- and only if -- the real function crashes on that input
			newSafetyReplays++
			path := writeReplay(replayDir, *prop, r, w)
			if r.replayed {
				violations++
				fmt.Printf("VIOLATION property=%s replay=%s obligation=%s status=%s (new obligation, the counterexample crashes the real code)\n", *prop, path, n, r.Status)
			} else {
				undecided = append(undecided, n)
			}
		default:
			if r.Status != "discharged" {
				undecided = append(undecided, n)
			}
		}
		slow = append(slow, map[string]interface{}{"name": n, "secs": round3(r.MaxSecs)})
	}
	// a ledger obligation that is not generated any more: if it comes from a contract clause with a
	// stable name (postcondition, loop clause, call-site assertion, lemma) and its function still
	// exists, the clause could not be stated on the changed code (an event it counts is gone, a
	// loop it talks about was removed, ...) -- that is a proved obligation lost, reported like one
	// that fails; everything else (names carrying source text, functions that are gone) is only
	// listed as unattached.
	funcExists := map[string]bool{}
	for _, f := range w.findFuncs("") {
		funcExists[funcKey(f)] = true
	}
	var lost []string
	for n := range inLedger {
		if _, ok := ro.results[n]; !ok {
			parts := strings.SplitN(n, "#", 3)
			stable := len(parts) == 3 && funcExists[parts[0]] && !strings.Contains(parts[2], "@") &&
				(parts[1] == "ensures" || parts[1] == "lemma" || parts[1] == "callsite" || parts[1] == "loop-exit" || parts[1] == "decreases" || strings.HasPrefix(parts[1], "invariant-"))
			if len(parts) == 3 && funcExists[parts[0]] && strings.HasPrefix(parts[2], "loop@") &&
				(parts[1] == "loop-exit" || parts[1] == "decreases" || strings.HasPrefix(parts[1], "invariant-")) {
				// a loop clause named by the loop's header text: if every identifier of that text still
				// occurs in the function, the loop itself was removed or rebuilt (the clause can no
				// longer be stated: a proved obligation lost); if one is gone, a rename is more likely
				key := strings.TrimPrefix(parts[2], "loop@")
				if i := strings.LastIndex(key, ":"); i >= 0 {
					key = key[:i]
				}
				stable = w.identsStillInFunc(parts[0], key)
				if before, ok := led.LoopCounts[parts[0]]; ok && !stable {
					// the function has fewer loops than on the unchanged tree: a loop is gone, whatever its
					// variables were called
					if now := w.loopCount(parts[0]); now >= 0 && now < before {
						stable = true
					}
				}
			}
			if stable && loopOrdRe.MatchString(parts[2]) {
				stable = false // named by a loop ordinal: shifts when another loop is added
			}
			if stable {
				// a clause that names a local variable which no longer exists is most likely the
				// victim of a rename: reported (CONTRACT-ERROR, unattached), not counted as a violation
				label := parts[2]
				if i := strings.LastIndex(label, ":"); i >= 0 {
					label = label[i+1:]
				}
				for _, note := range ro.notes {
					if strings.Contains(note, " "+label+": ") && strings.Contains(note, "unknown identifier") {
						stable = false
					}
				}
				if _, isStale := ro.stale[parts[0]]; isStale {
					stable = false
				}
			}
			if stable {
				lost = append(lost, n)
			} else {
				unattached = append(unattached, n)
			}
		}
	}
	sort.Strings(lost)
	for _, n := range lost {
		violations++
		r := &NamedResult{Name: n, Kind: "not-generated", Status: "not-generated"}
		path := writeReplay(replayDir, *prop, r, w)
		fmt.Printf("VIOLATION property=%s replay=%s obligation=%s status=not-generated no-failing-input-found\n", *prop, path, n)
	}
	sort.Strings(unattached)
	for _, n := range unattached {
		fmt.Printf("WARNING unattached ledger obligation (function or clause no longer present): %s\n", n)
	}
	for _, n := range ro.notes {
		fmt.Println(n)
	}
	sort.Slice(slow, func(i, j int) bool { return slow[i]["secs"].(float64) > slow[j]["secs"].(float64) })
	if len(slow) > 5 {
		slow = slow[:5]
	}
	// evidence
	var fnames []string
	for _, f := range ro.funcs {
		fnames = append(fnames, f.Key)
	}
	var samples []interface{}
	cnt := 0
	for _, n := range names {
		r := ro.results[n]
		if inLedger[n] && cnt < 5 {
			o := r.Insts[0]
			samples = append(samples, map[string]interface{}{"obligation": n, "instances": len(r.Insts), "result": r.Status, "smt_bytes": o.Size, "where": o.Pos, "goal": truncate(o.Goal.String(), 300)})
			cnt++
		}
	}
	backends := map[string]interface{}{}
	for s, c := range ro.solverCount {
		backends[s] = map[string]interface{}{"queries": c, "solver_secs": round3(ro.solverSecs[s])}
	}
	var assumptions []string
	assumptions = append(assumptions,
		"A1 machine integers are modelled as mathematical integers (no overflow)",
		"A2 slices have value semantics: append never shares spare capacity observably; writes through s[i] update the SSA value they were taken from and its origin location",
		"closed world for AST interfaces: the Dyn datatype has exactly the node types found in the loaded packages",
		"receivers *converter / *Parser / *transpiler are non-nil and unaliased",
		"trusted: go/packages + go/ssa construction of the analysed functions; the govc engine itself; the SMT solvers",
		"node invariants of the AST are assumed for the AST values that a query takes apart (ground instances only: closed world, nodes immutable once converted to an interface); they are proved where a node is converted (obligations ...#node-invariant#...)",
		"ValueType / StatementType are declared total on nodes that are there; the declaration is justified by the safety obligations of their implementations (structural induction over the finite tree) and by nothing else",
		"vacuity guards examine the quantifier-free part of the assumptions only; a guard that is not decided in time is a note, not a violation",
		"termination is proved for the loops that have a decreases clause (the lexer's three loops) and nowhere else",
	)
	var libs []string
	for l := range ro.libs {
		libs = append(libs, l)
	}
	sort.Strings(libs)
	for _, l := range libs {
		doc := libDoc[l]
		if doc == "" {
			doc = libDocFor(l)
		}
		assumptions = append(assumptions, "library model "+l+": "+doc)
	}
	var assumed []string
	for a := range ro.assumed {
		assumed = append(assumed, a)
	}
	sort.Strings(assumed)
	for _, a := range assumed {
		assumptions = append(assumptions, "callee contract assumed at call sites (its obligations are discharged by the check of the property that tags them): "+a)
	}
	// preconditions of Converter methods: the transpiler calls them through the interface, where
	// no obligation is generated -- they are assumptions about the call protocol, not proved facts
	var pre []string
	for _, f := range w.functionsFor(*prop) {
		fc := w.contracts[funcKey(f)]
		if fc == nil || len(fc.Requires) == 0 || f.Signature.Recv() == nil || !ast.IsExported(f.Name()) {
			continue
		}
		if !strings.Contains(funcKey(f), "(*converter)") {
			continue
		}
		for _, c := range fc.Requires {
			pre = append(pre, funcKey(f)+": "+c.Label+": "+c.Text)
		}
	}
	sort.Strings(pre)
	for _, a := range pre {
		assumptions = append(assumptions, "precondition of a Converter method assumed in its own proof and NOT checked where the transpiler calls it through the interface (call-protocol assumption): "+a)
	}
	assumptions = append(assumptions, propertyAssumptions(*prop)...)
	ev := map[string]interface{}{
		"property_id": *prop,
		"tier":        *tier,
		"seed":        seed,
		"level":       levelOf(*prop),
		"wall_s":      round3(time.Since(start).Seconds()),
		"violations":  violations,
		"assumptions": assumptions,
		"coverage": map[string]interface{}{
			"obligations":              claimed,
			"discharged":               discharged,
			"obligation_instances":     ro.nobls,
			"named_obligations_total":  len(names),
			"undecided":                undecided,
			"undecided_count":          len(undecided),
			"known_findings":           knownHit,
			"unattached":               unattached,
			"functions_under_contract": fnames,
			"functions_outside_subset": ro.outside,
			"by_backend":               backends,
			"slowest":                  slow,
			"samples":                  samples,
			"checker_cmd":              fmt.Sprintf("govc check -prop %s -tier %s (z3-new 5.1.0 first, then race z3 4.8.12 / z3-new / cvc5 1.0.3; %ds per obligation)", *prop, *tier, tmo),
			"trusted_base":             trustedBase(*prop),
			"explanation":              explanationOf(*prop),
			"contract_errors":          ro.contractErrs,
		},
	}
	os.MkdirAll(filepath.Join(*verif, "evidence"), 0755)
	data, _ := json.MarshalIndent(ev, "", " ")
	os.WriteFile(filepath.Join(*verif, "evidence", *prop+".json"), append(data, '\n'), 0644)
	if notAttempted > 0 {
		fmt.Printf("NOTE %d further ledger obligations were not attempted after %d had failed\n", notAttempted, w.stopAfter)
		if violations == 0 {
			// cannot happen: solving only stops early once enough ledger obligations have failed
			fmt.Println("ERROR: obligations were left unattempted although nothing failed (engine fault)")
			os.Exit(3)
		}
	}
	fmt.Printf("%s %s: %d/%d ledger obligations discharged, %d undecided (not claimed), %d known findings, %d unattached, %.1fs\n",
		*prop, *tier, discharged, claimed, len(undecided), len(knownHit), len(unattached), time.Since(start).Seconds())
	if claimed == 0 {
		fmt.Println("ERROR: no ledger obligations for this property (vacuous check)")
		os.Exit(3)
	}
	if violations > 0 {
		os.Exit(1)
	}
}

func truncate(s string, n int) string {
	if len(s) > n {
		return s[:n] + "..."
	}
	return s
}

func libDocFor(l string) string {
	switch {
	case strings.HasPrefix(l, "os.") || strings.HasPrefix(l, "path/filepath."):
		return libDoc["os/filepath"]
	case strings.HasPrefix(l, "regexp-semantics: "):
		return "exact model used instead of the uninterpreted one"
	case strings.Contains(l, "regexp"):
		return libDoc["regexp"]
	case strings.Contains(l, "sha256"):
		return libDoc["crypto/sha256"]
	}
	return "uninterpreted (fresh result)"
}

func (r *NamedResult) String() string { return r.Name + ":" + r.Status }

func writeReplay(dir, prop string, r *NamedResult, w *World) string {
	os.MkdirAll(dir, 0755)
	name := strings.Map(func(c rune) rune {
		if c >= 'a' && c <= 'z' || c >= 'A' && c <= 'Z' || c >= '0' && c <= '9' || c == '_' || c == '-' || c == '.' {
			return c
		}
		return '_'
	}, r.Name)
	if len(name) > 150 {
		name = name[:150]
	}
	path := filepath.Join(dir, name+".json")
	o := r.Worst
	rep := map[string]interface{}{
		"property":   prop,
		"obligation": r.Name,
		"status":     r.Status,
		"instances":  len(r.Insts),
	}
	if o != nil {
		rep["where"] = o.Pos
		rep["solver"] = o.Solver
		rep["goal"] = o.Goal.String()
		rep["model"] = o.Model
		var as []string
		for _, a := range o.Assumes {
			as = append(as, truncate(a.String(), 2000))
		}
		rep["path_condition"] = as
		if o.Text != "" {
			if data, err := os.ReadFile(o.Text); err == nil && len(data) < 400000 {
				rep["smt_query"] = string(data)
			}
		}
		conf, log := w.tryReplay(r, o)
		rep["replay_outcome"] = conf
		rep["replay_log"] = log
		r.replayed = conf == "confirmed"
	}
	data, _ := json.MarshalIndent(rep, "", " ")
	os.WriteFile(path, append(data, '\n'), 0644)
	return path
}
