package main

import (
	"strconv"
	"os"
	"fmt"
	"go/ast"
	"go/token"
	"go/types"
	"sort"
	"strings"

	"golang.org/x/tools/go/ssa"
)

const maxInlineDepth = 8

func (x *Exec) doCall(st *State, site ssa.Instruction, com *ssa.CallCommon, k cont) {
	var args []Value
	for _, a := range com.Args {
		args = append(args, x.get(st, a))
	}
	pos := site.Pos()
	if com.IsInvoke() {
		recv := x.get(st, com.Value)
		x.invoke(st, recv, com.Method, args, pos, k)
		return
	}
	switch v := com.Value.(type) {
	case *ssa.Builtin:
		k(st, x.builtin(st, v, com, args, pos))
		return
	case *ssa.Function:
		x.callStatic(st, v, args, nil, pos, k)
		return
	case *ssa.MakeClosure:
		cv := x.get(st, v).(*ClosureV)
		x.callStatic(st, cv.fn, args, cv.binds, pos, k)
		return
	}
	fv := x.get(st, com.Value)
	x.callValue(st, fv, args, com.Signature(), pos, k)
}

func (x *Exec) callValue(st *State, fv Value, args []Value, sig *types.Signature, pos token.Pos, k cont) {
	switch f := fv.(type) {
	case *ClosureV:
		x.callStatic(st, f.fn, args, f.binds, pos, k)
	case *ParamFuncV:
		x.callParamFunc(st, f, args, pos, k)
	case *BoundMethodV:
		x.ifaceEvent(st, f.recv, f.name, f.sig, args, pos, k)
	case nil:
		x.oblige(st, "safety", "nil-func-call:"+x.srcAt(pos), []string{"C13"}, False, pos)
	case *Term:
		// a function value read out of a data structure: unknown code, results unconstrained
		results := x.havocResults(sig, "dyncall")
		x.recordEvent(st, "dyncall", args, results)
		k(st, results)
	default:
		x.outside = fmt.Sprintf("call of %T", fv)
		k(st, x.havocResults(sig, "dyncall"))
	}
}

func (x *Exec) builtin(st *State, b *ssa.Builtin, com *ssa.CallCommon, args []Value, pos token.Pos) []Value {
	switch b.Name() {
	case "len":
		switch a := args[0].(type) {
		case *ArrV:
			return []Value{IntT(int64(len(a.elems)))}
		case *Term:
			if a.Sort == "String" {
				return []Value{StrLen(a)}
			}
			if strings.HasPrefix(a.Sort, "Sl_") {
				n := slLen(a)
				if n.Kind != KInt {
					st.assume(Cmp(">=", n, IntT(0))) // Go invariant of every slice value
				}
				return []Value{n}
			}
			if _, ok := com.Args[0].Type().Underlying().(*types.Map); ok {
				r := x.freshVar("maplen", "Int")
				st.assume(Cmp(">=", r, IntT(0)))
				return []Value{r}
			}
		}
		x.outside = "len of unsupported value"
		return []Value{x.freshVar("len", "Int")}
	case "cap":
		a := x.mustTerm(args[0], "cap")
		r := x.freshVar("cap", "Int")
		st.assume(Cmp(">=", r, slLen(a)))
		return []Value{r}
	case "append":
		return []Value{x.doAppend(st, args[0], args[1], com.Args[0].Type())}
	case "print", "println":
		return nil
	case "ssa:wrapnilchk":
		return []Value{args[0]}
	case "min", "max":
		a, c := x.mustTerm(args[0], "min"), x.mustTerm(args[1], "min")
		if b.Name() == "min" {
			return []Value{Ite(Cmp("<=", a, c), a, c)}
		}
		return []Value{Ite(Cmp(">=", a, c), a, c)}
	}
	x.outside = "builtin " + b.Name()
	var out []Value
	if t := com.Signature().Results(); t.Len() > 0 {
		out = append(out, x.havocOfType("builtin", t.At(0).Type()))
	}
	return out
}

// doAppend: append(s, t...) with value semantics.
func (x *Exec) doAppend(st *State, sv, tv Value, sliceType types.Type) Value {
	ss := x.w.sortOf(sliceType)
	es := elemSortOfSlice(x.w, ss)
	var s *Term
	if sv == nil {
		s = x.w.zero(sliceType)
	} else {
		s = x.mustTerm(sv, "append dst")
	}
	if av, ok := tv.(*ArrV); ok {
		arr, n := slArr(s), slLen(s)
		for i, e := range av.elems {
			var et *Term
			if e == nil {
				et = x.w.zero(av.et)
			} else {
				et = x.mustTerm(e, "append elem")
			}
			arr = Store(arr, Add(n, IntT(int64(i))), et)
		}
		return mkSlice(ss, arr, Add(n, IntT(int64(len(av.elems)))), False)
	}
	t := x.mustTerm(tv, "append src")
	if t.Sort == "String" {
		x.outside = "append of string bytes"
		return x.freshVar("app", ss)
	}
	// literal slice built from a store chain of known length
	if ln := slLen(t); ln.Kind == KInt && ln.I <= 16 {
		arr, n := slArr(s), slLen(s)
		for i := int64(0); i < ln.I; i++ {
			arr = Store(arr, Add(n, IntT(i)), Select(slArr(t), IntT(i), es))
		}
		return mkSlice(ss, arr, Add(n, ln), And(slNil(s), slNil(t), Eq(ln, IntT(0))))
	}
	// general concatenation: fresh array with a quantified description
	na := x.freshVar("cat", arraySort(es))
	kq := VarT("k!q", "Int")
	n, m := slLen(s), slLen(t)
	sel := App("select", es, na, kq)
	body := And(
		Implies(And(Cmp("<=", IntT(0), kq), Cmp("<", kq, n)), Eq(sel, App("select", es, slArr(s), kq))),
		Implies(And(Cmp("<=", n, kq), Cmp("<", kq, Add(n, m))), Eq(sel, App("select", es, slArr(t), Sub(kq, n)))))
	st.assume(Quant("forall", []*Term{kq}, body))
	return mkSlice(ss, na, Add(n, m), And(slNil(s), Eq(m, IntT(0))))
}

// ---------------------------------------------------------------- static calls

func (x *Exec) callStatic(st *State, fn *ssa.Function, args []Value, binds []Value, pos token.Pos, k cont) {
	w := x.w
	if x.initMode && fn.Name() == "init" && fn.Synthetic != "" && len(args) == 0 {
		k(st, nil) // the initialiser of an imported package
		return
	}
	if len(st.frames) == 1 && !x.pureMode {
		// assertions the function under verification owes just before it calls fn
		root := st.frames[0]
		if rfc := w.contracts[funcKey(root.fn)]; rfc != nil && len(rfc.CallSites[fn.Name()]) > 0 {
			env := x.newSpecEnv(st, st, root.fn)
			env.bindRootParams(root)
			env.frame = root
			env.atBlock = st.curBlock
			for i, a := range args {
				env.vars[fmt.Sprintf("arg%d", i)] = a // the arguments of the call
			}
			for _, c := range rfc.CallSites[fn.Name()] {
				g, err := env.evalBool(c.Expr)
				if err != nil {
					if strings.Contains(err.Error(), "unknown identifier") || strings.Contains(err.Error(), "no field ") {
						// (no field: a local of the same name but of another type is in scope at this call)
						// the clause talks about a local that is not in scope at this call: it is
						// about other calls of the same function
						x.noteOnce("callsite clause %s does not apply at %s (%v)", c.Label, x.srcAt(pos), err)
						continue
					}
					x.contractError(c, err)
					continue
				}
				x.oblige(st, "callsite", fn.Name()+":"+c.Label, c.Props, g, pos)
			}
		}
	}
	if !w.inRepo(fn) {
		x.libCall(st, fn, args, pos, k)
		return
	}
	key := funcKey(fn)
	fc := w.contracts[key]
	// a side-effect free function is applied as the SMT function it denotes (exact and
	// deterministic); its contract, if any, is then only an obligation of its own check
	if pd := w.pureDef(fn); pd != nil && binds == nil && !(fc != nil && fc.Flags["opaque"]) {
		if targs, ok := x.pureArgs(st, pd, args); ok {
			if fc != nil && len(fc.Requires) > 0 && !x.pureMode {
				env := x.specEnvForCall(st, st, fn, args, binds)
				for _, c := range fc.Requires {
					g, err := env.evalBool(c.Expr)
					if err != nil {
						x.contractError(c, err)
						continue
					}
					x.obligeAssume(st, "requires", key+":"+c.Label+"@"+x.srcAt(pos), c.Props, g, pos)
				}
			}
			if pd.okName != "" {
				x.oblige(st, "safety", "call-may-panic:"+key+":"+x.srcAt(pos), []string{"C13"}, App(pd.okName, "Bool", targs...), pos)
			}
			k(st, x.pureAppAll(pd, targs))
			return
		}
	}
	if fc != nil && (fc.assumable()+len(fc.Requires) > 0 || fc.Flags["opaque"]) && !fc.Flags["inline"] {
		x.applyContract(st, fn, fc, args, binds, pos, k)
		return
	}
	forceInline := (fc != nil && fc.Flags["inline"]) || fn.Parent() != nil
	if len(st.frames) >= maxInlineDepth+1 || x.onStack(st, fn) || (w.isRecursive(fn) && !forceInline) || w.isModular(fn) {
		// cannot inline further: havoc with the callee's static frame
		if x.pureMode {
			x.pureFail = "recursion/inlining depth at " + key
		}
		x.noteOnce("call to %s not inlined (recursive group or depth): frame from static effects, result unconstrained", key)
		pre0 := st.clone()
		x.recvInvAt(st, pre0, fn, args, binds, pos, true)
		x.checkParamContracts(st, fn, fc, args, pos)
		x.havocCall(st, fn, args, binds)
		results := x.havocResults(fn.Signature, fn.Name())
		for i, r := range results {
			if t, ok := r.(*Term); ok {
				for _, f := range x.typeFacts(t, fn.Signature.Results().At(i).Type(), 0) {
					st.assume(f)
				}
			}
		}
		x.recvInvAt(st, pre0, fn, args, binds, pos, false)
		x.assumeCommonPost(st, pre0, fn, args, binds, results)
		x.recordEvent(st, eventNameOfFunc(fn), args, results)
		k(st, results)
		return
	}
	x.runFunc(st, fn, args, binds, k)
}

func (x *Exec) onStack(st *State, fn *ssa.Function) bool {
	for _, f := range st.frames {
		if f.fn == fn {
			return true
		}
	}
	return false
}

// pureArgs builds the argument list of a pure application: read-only pointer
// parameters are passed as the current pointee value, map heaps are appended.
func (x *Exec) pureArgs(st *State, pd *PureDef, args []Value) ([]*Term, bool) {
	var targs []*Term
	for i, a := range args {
		if i < len(pd.ptrParam) && pd.ptrParam[i] {
			p, ok := a.(*PtrV)
			if !ok {
				return nil, false
			}
			a = x.load(st, p, nil, token.NoPos)
		}
		t := x.term(a)
		if t == nil {
			return nil, false
		}
		targs = append(targs, t)
	}
	for _, cs := range pd.heapSorts {
		targs = append(targs, x.heap(st, cs))
	}
	return targs, true
}

func (x *Exec) pureAppAll(pd *PureDef, targs []*Term) []Value {
	out := []Value{x.pureApp(pd, targs)}
	for j := range pd.more {
		out = append(out, App(fmt.Sprintf("%s!r%d", pd.name, j+1), pd.moreSorts[j], targs...))
	}
	return out
}

func (x *Exec) pureApp(pd *PureDef, args []*Term) *Term {
	return pureAppTerm(pd, args)
}

func pureAppTerm(pd *PureDef, args []*Term) *Term {
	if pd.inlineBody != nil && len(args) == len(pd.params) {
		// small non-recursive definitions are substituted (keeps folding effective)
		return substTerm(pd.inlineBody, pd.params, args)
	}
	if !pd.recursive && pd.body != nil && len(args) == len(pd.params) && pd.okName == "" {
		allConst := len(args) > 0
		for _, a := range args {
			if !a.isConst() {
				allConst = false
			}
		}
		if allConst {
			// constant arguments: evaluate the definition by substitution and folding
			return substTerm(pd.body, pd.params, args)
		}
	}
	return App(pd.name, pd.resSort, args...)
}

// havocCall applies the static frame of fn to the caller's memory.
func (x *Exec) havocCall(st *State, fn *ssa.Function, args []Value, binds []Value) {
	eff := x.w.effects(fn)
	x.applyEffects(st, eff, args, binds, fn.Name())
}

func (x *Exec) applyEffects(st *State, eff *Effects, args []Value, binds []Value, why string) {
	if st.alloc != nil && !x.pureMode {
		// the callee / loop body may allocate: the allocation counter only grows
		na := x.freshVar("alloc", "Int")
		st.assume(Cmp(">=", na, st.alloc))
		st.alloc = na
	}
	if x.pureMode && (len(eff.fields) > 0 || len(eff.heaps) > 0 || eff.opaque || eff.events) {
		x.pureFail = "effectful call " + why
	}
	hv := func(v Value, fields map[string]bool) {
		p, ok := v.(*PtrV)
		if !ok {
			return
		}
		x.havocCellFields(st, p, fields, why)
	}
	for i, fs := range eff.fields {
		if i < len(args) {
			hv(args[i], fs)
		}
	}
	for i, fs := range eff.fv {
		if i < len(binds) {
			hv(binds[i], fs)
		}
	}
	if eff.opaque {
		for _, a := range args {
			hv(a, map[string]bool{"*": true})
		}
		for _, b := range binds {
			hv(b, map[string]bool{"*": true})
		}
		for h := range st.heaps {
			st.heaps[h] = x.freshVar("heap_"+h, st.heaps[h].Sort)
		}
		x.allHeapsHavocked(st)
	}
	for h := range eff.heaps {
		x.havocHeap(st, h)
	}
	if (eff.events || eff.opaque) && strings.HasPrefix(why, "loop") {
		// the event log is per activation: only a loop cut forgets it, a call does not
		x.havocEvents(st)
	}
}

func (x *Exec) havocCellFields(st *State, p *PtrV, fields map[string]bool, why string) {
	cur, ok := st.cells[p.cell]
	if !ok {
		cur = x.w.zero(p.cell.typ)
	}
	sub := x.descend(cur, p.path)
	t, isT := sub.(*Term)
	if !isT {
		return // function-valued or engine-level cell: not data, left unchanged
	}
	var nv *Term
	d := x.w.dts[t.Sort]
	if fields["*"] || d == nil || len(d.Ctors) != 1 || strings.HasPrefix(t.Sort, "Sl_") {
		nv = x.freshVar(p.cell.name, t.Sort)
		if named := x.w.structOf[t.Sort]; named != nil {
			for _, f := range x.typeFacts(nv, named, 0) {
				st.assume(f)
			}
		}
	} else {
		c := d.Ctors[0]
		var as []*Term
		named := x.w.structOf[t.Sort]
		for i, s := range c.Sels {
			fname := strings.TrimPrefix(s, t.Sort+"__")
			if fields[fname] {
				fvv := x.freshVar(p.cell.name+"."+fname, c.Sorts[i])
				if named != nil {
					if stt, ok := named.Underlying().(*types.Struct); ok && i < stt.NumFields() {
						for _, f := range x.typeFacts(fvv, stt.Field(i).Type(), 0) {
							st.assume(f)
						}
					}
				}
				as = append(as, fvv)
			} else {
				as = append(as, Sel(s, t))
			}
		}
		nv = Mk(c.Name, as...)
	}
	st.cells[p.cell] = x.update(cur, p.path, nv)
}

// applyHavoc: loop havoc from loop effects.
func (x *Exec) applyHavoc(st *State, fr *Frame, eff *Effects, why string) {
	var args, binds []Value
	for _, p := range fr.fn.Params {
		args = append(args, fr.env[p])
	}
	for _, p := range fr.fn.FreeVars {
		binds = append(binds, fr.env[p])
	}
	x.applyEffects(st, eff, args, binds, why)
	// locals (Alloc cells and slice values written through element addresses)
	for root, fields := range eff.locals {
		switch r := root.(type) {
		case *ssa.Alloc:
			if p, ok := fr.env[r].(*PtrV); ok {
				cur := st.cells[p.cell]
				if _, isArr := cur.(*ArrV); isArr {
					continue // varargs scratch arrays are re-initialised before use
				}
				if cur == nil {
					continue
				}
				if _, isT := cur.(*Term); !isT {
					continue
				}
				x.havocCellFields(st, p, fields, why)
			}
		default:
			if t, ok := fr.env[root].(*Term); ok && strings.HasPrefix(t.Sort, "Sl_") {
				// elements may change, length and nil-ness do not
				es := elemSortOfSlice(x.w, t.Sort)
				fr.env[root] = mkSlice(t.Sort, x.freshVar("elems", arraySort(es)), slLen(t), slNil(t))
				if org, ok := fr.origin[root]; ok {
					x.store(st, org, fr.env[root], token.NoPos)
				}
			}
		}
	}
}

// ---------------------------------------------------------------- contracts at call sites

func (x *Exec) applyContract(st *State, fn *ssa.Function, fc *FuncContract, args []Value, binds []Value, pos token.Pos, k cont) {
	key := funcKey(fn)
	if x.pureMode {
		x.pureFail = "call to contract function " + key
		return
	}
	x.usedAssume[key] = true
	pre := st.clone()
	env := x.specEnvForCall(st, pre, fn, args, binds)
	for _, c := range fc.Requires {
		g, err := env.evalBool(c.Expr)
		if err != nil {
			x.contractError(c, err)
			continue
		}
		x.obligeAssume(st, "requires", key+":"+c.Label+"@"+x.srcAt(pos), c.Props, g, pos)
	}
	invs, invRecv := x.w.recvInvFor(fn)
	for _, c := range invs {
		env.vars[c.Param] = env.vars[invRecv]
		g, err := env.evalBool(c.Expr)
		if err != nil {
			x.contractError(c, err)
			continue
		}
		x.obligeAssume(st, "requires", key+":receiver-invariant:"+c.Label+"@"+x.srcAt(pos), c.Props, g, pos)
	}
	x.checkParamContracts(st, fn, fc, args, pos)
	x.havocCall(st, fn, args, binds)
	results := x.havocResults(fn.Signature, fn.Name())
	for i, r := range results {
		if t, ok := r.(*Term); ok {
			for _, f := range x.typeFacts(t, fn.Signature.Results().At(i).Type(), 0) {
				st.assume(f)
			}
		}
	}
	env = x.specEnvForCall(st, pre, fn, args, binds)
	// a clause `result == E` defines the result: use E itself instead of a fresh symbol constrained
	// to equal it (same meaning, but later goals about it become syntactic identities)
	for _, c := range fc.Ensures {
		if mentionsEvents(c.Expr) || hasProp(c.Props, "FINDING") {
			continue
		}
		for _, cj := range conjuncts(c.Expr) {
			be, ok := cj.(*ast.BinaryExpr)
			if !ok || be.Op != token.EQL {
				continue
			}
			id, ok := be.X.(*ast.Ident)
			if !ok {
				continue
			}
			idx := -1
			switch {
			case id.Name == "result" || id.Name == "result0":
				idx = 0
			case strings.HasPrefix(id.Name, "result"):
				if n, err := strconv.Atoi(id.Name[6:]); err == nil {
					idx = n
				}
			}
			if idx < 0 || idx >= len(results) || mentionsResult(be.Y) {
				continue
			}
			old, isTerm := results[idx].(*Term)
			if !isTerm || old.Kind != KVar {
				continue
			}
			v, err := env.evalTerm(be.Y)
			if err != nil || v.Sort != old.Sort {
				continue
			}
			results[idx] = v
		}
	}
	env.setResults(fn, results)
	for _, c := range invs {
		env.vars[c.Param] = env.vars[invRecv]
		if g, err := env.evalBool(c.Expr); err == nil {
			st.assume(g)
		}
	}
	for _, c := range fc.Ensures {
		if mentionsEvents(c.Expr) || hasProp(c.Props, "FINDING") {
			continue // a clause recorded as a known finding is never assumed
		}
		g, err := env.evalBool(c.Expr)
		if err != nil {
			x.contractError(c, err)
			continue
		}
		st.assume(g)
	}
	x.assumeCommonPost(st, pre, fn, args, binds, results)
	x.recordEvent(st, eventNameOfFunc(fn), args, results)
	k(st, results)
}

// recvInvAt: the receiver invariants of a callee that is not inlined are owed before the call
// (check=true) and may be relied on afterwards (check=false).
func (x *Exec) recvInvAt(st, pre *State, fn *ssa.Function, args, binds []Value, pos token.Pos, check bool) {
	invs, invRecv := x.w.recvInvFor(fn)
	if len(invs) == 0 || x.pureMode {
		return
	}
	key := funcKey(fn)
	env := x.specEnvForCall(st, pre, fn, args, binds)
	for _, c := range invs {
		env.vars[c.Param] = env.vars[invRecv]
		g, err := env.evalBool(c.Expr)
		if err != nil {
			x.contractError(c, err)
			continue
		}
		if check {
			x.obligeAssume(st, "requires", key+":receiver-invariant:"+c.Label+"@"+x.srcAt(pos), c.Props, g, pos)
			continue
		}
		st.assume(g)
	}
}

// assumeCommonPost assumes the type-wide postconditions of a callee (proved when the callee is checked).
func (x *Exec) assumeCommonPost(st, pre *State, fn *ssa.Function, args, binds []Value, results []Value) {
	cs := x.w.commonPostFor(fn)
	if len(cs) == 0 {
		return
	}
	env := x.specEnvForCall(st, pre, fn, args, binds)
	env.setResults(fn, results)
	for _, c := range cs {
		if g, err := env.evalBool(c.Expr); err == nil {
			st.assume(g)
		}
	}
}

// assumable counts the ensures clauses callers may rely on.
func (fc *FuncContract) assumable() int {
	n := 0
	for _, c := range fc.Ensures {
		if !hasProp(c.Props, "FINDING") {
			n++
		}
	}
	return n
}

func eventNameOfFunc(fn *ssa.Function) string { return fn.Name() }

func (x *Exec) callParamFunc(st *State, pf *ParamFuncV, args []Value, pos token.Pos, k cont) {
	if x.pureMode {
		x.pureFail = "call of function parameter"
		return
	}
	pre := st.clone()
	// a function value received as parameter may touch anything reachable from the
	// caller's pointers (it is typically a bound method of the same receiver)
	root := st.frames[0]
	if pf.fc != nil {
		// what the function value may rely on about its arguments is owed here
		env := x.newSpecEnv(st, pre, root.fn)
		env.bindRootParams(root)
		for i := 0; i < pf.sig.Params().Len() && i < len(args); i++ {
			env.vars["arg"+fmt.Sprint(i)] = args[i]
			if n := pf.sig.Params().At(i).Name(); n != "" {
				env.vars["param_"+n] = args[i]
			}
		}
		for _, c := range pf.fc.Params[pf.name] {
			if c.Kind != "requires" {
				continue
			}
			g, err := env.evalBool(c.Expr)
			if err != nil {
				x.contractError(c, err)
				continue
			}
			x.obligeAssume(st, "requires", "param-"+pf.name+":"+c.Label+"@"+x.srcAt(pos), c.Props, g, pos)
		}
	}
	var rargs []Value
	for _, p := range root.fn.Params {
		rargs = append(rargs, root.env[p])
	}
	var rbinds []Value
	for _, p := range root.fn.FreeVars {
		rbinds = append(rbinds, root.env[p])
	}
	eff := newEffects()
	eff.opaque = true
	x.applyEffects(st, eff, rargs, rbinds, "param "+pf.name)
	results := x.havocResults(pf.sig, pf.name)
	if pf.fc != nil {
		env := x.newSpecEnv(st, pre, root.fn)
		env.bindRootParams(root)
		for i := 0; i < pf.sig.Params().Len() && i < len(args); i++ {
			env.vars["arg"+fmt.Sprint(i)] = args[i]
			if n := pf.sig.Params().At(i).Name(); n != "" {
				env.vars["param_"+n] = args[i]
			}
		}
		for i, r := range results {
			env.vars["result"+fmt.Sprint(i)] = r
		}
		if len(results) > 0 {
			env.vars["result"] = results[0]
			if pf.sig.Results().At(len(results)-1).Type().String() == "error" {
				env.vars["err"] = results[len(results)-1]
			}
		}
		for _, c := range pf.fc.Params[pf.name] {
			if c.Kind != "ensures" {
				continue
			}
			g, err := env.evalBool(c.Expr)
			if err != nil {
				x.contractError(c, err)
				continue
			}
			st.assume(g)
		}
	}
	// a function value received by a method is required to respect the type-wide postconditions
	for _, c := range x.w.commonPostFor(root.fn) {
		env := x.newSpecEnv(st, pre, root.fn)
		env.bindRootParams(root)
		if g, err := env.evalBool(c.Expr); err == nil {
			st.assume(g)
		}
	}
	if invs, recv := x.w.recvInvFor(root.fn); len(invs) > 0 {
		env := x.newSpecEnv(st, pre, root.fn)
		env.bindRootParams(root)
		for _, c := range invs {
			env.vars[c.Param] = env.vars[recv]
			if g, err := env.evalBool(c.Expr); err == nil {
				st.assume(g)
			}
		}
	}
	x.recordEvent(st, pf.name, args, results)
	k(st, results)
}

// ---------------------------------------------------------------- interface calls

func (x *Exec) invoke(st *State, recv Value, m *types.Func, args []Value, pos token.Pos, k cont) {
	sig := m.Type().(*types.Signature)
	switch r := recv.(type) {
	case *Term:
		switch r.Sort {
		case "Dyn":
			pd := x.w.dispatchDef(m.Name())
			if pd == nil {
				x.outside = "no dispatch for method " + m.Name()
				k(st, x.havocResults(sig, m.Name()))
				return
			}
			targs := []*Term{r}
			for _, a := range args {
				targs = append(targs, x.mustTerm(a, "invoke arg"))
			}
			x.oblige(st, "safety", "nil-iface-call:"+x.srcAt(pos), []string{"C13"}, Not(Is("dyn_nil", r)), pos)
			if pd.okName != "" {
				x.oblige(st, "safety", "call-may-panic:"+m.Name()+":"+x.srcAt(pos), []string{"C13"}, App(pd.okName, "Bool", targs...), pos)
			}
			k(st, []Value{App(pd.name, pd.resSort, targs...)})
			return
		case "Err":
			if m.Name() == "Error" {
				x.oblige(st, "safety", "nil-iface-call:"+x.srcAt(pos), []string{"C13"}, Not(Is("err_nil", r)), pos)
				k(st, []Value{Sel("err_msg", r)})
				return
			}
		case "Opaque":
			x.ifaceEvent(st, r, m.Name(), sig, args, pos, k)
			return
		}
	case *AnyV:
		// method on a concrete value stored in an interface: resolve statically
		if fn := x.w.prog.LookupMethod(r.typ, m.Pkg(), m.Name()); fn != nil {
			x.callStatic(st, fn, append([]Value{r.v}, args...), nil, pos, k)
			return
		}
	case *PtrV:
		// interface holding a pointer to a repo struct (converter passed as Converter)
		if pt, ok := r.cell.typ.(*types.Named); ok {
			if fn := x.w.prog.LookupMethod(types.NewPointer(pt), m.Pkg(), m.Name()); fn != nil {
				x.callStatic(st, fn, append([]Value{r}, args...), nil, pos, k)
				return
			}
		}
	}
	x.outside = fmt.Sprintf("invoke %s on %T", m.Name(), recv)
	k(st, x.havocResults(sig, m.Name()))
}

// ifaceEvent: a call on an opaque interface value (transpiler.Converter).  The
// result is unconstrained apart from the iface contract; the call is logged.
func (x *Exec) ifaceEvent(st *State, recv *Term, name string, sig *types.Signature, args []Value, pos token.Pos, k cont) {
	if x.pureMode {
		x.pureFail = "interface call " + name
		return
	}
	results := x.havocResults(sig, name)
	for i, r := range results {
		if t, ok := r.(*Term); ok {
			for _, f := range x.typeFacts(t, sig.Results().At(i).Type(), 0) {
				st.assume(f)
			}
		}
	}
	if name == "Sum" && len(args) == 1 && len(results) == 1 && recv != nil {
		// hash.Hash.Sum appends the digest to its argument: the result is longer by the digest size of
		// this hash (assumed library fact; the size is 32 for a hash made by sha256.New)
		if rt, ok := results[0].(*Term); ok {
			if at := x.term(args[0]); at != nil && strings.HasPrefix(rt.Sort, "Sl_") && at.Sort == rt.Sort {
				st.assume(Eq(slLen(rt), Add(slLen(at), App("hash_size", "Int", recv))))
			}
		}
	}
	x.recordEvent(st, name, args, results)
	k(st, results)
}

// ---------------------------------------------------------------- event ghost state

func (x *Exec) evKind(st *State, kind string, argSorts, resSorts []string) *EvKind {
	if e, ok := st.ev[kind]; ok {
		return e
	}
	e := &EvKind{argSorts: argSorts, resSorts: resSorts}
	mk := func(tag string, i int, s string) *Term {
		return VarT(fmt.Sprintf("ev_%s_%s%d%s", kind, tag, i, st.evEpoch), arraySort(s))
	}
	for i, s := range argSorts {
		e.args = append(e.args, mk("a", i, s))
	}
	for i, s := range resSorts {
		e.res = append(e.res, mk("r", i, s))
	}
	e.seq = VarT(fmt.Sprintf("ev_%s_seq%s", kind, st.evEpoch), arraySort("Int"))
	if st.evEpoch == "" {
		e.n = IntT(0)
	} else {
		e.n = VarT(fmt.Sprintf("ev_%s_n%s", kind, st.evEpoch), "Int")
		st.assume(Cmp(">=", e.n, IntT(0)))
		// everything logged before the cut precedes the clock at the cut
		if st.epochClock != nil {
			x.fresh++
			kq := VarT(fmt.Sprintf("k!s%d", x.fresh), "Int")
			st.assume(Quant("forall", []*Term{kq}, Implies(And(Cmp("<=", IntT(0), kq), Cmp("<", kq, e.n)),
				And(Cmp("<", App("select", "Int", e.seq, kq), st.epochClock), Cmp(">=", App("select", "Int", e.seq, kq), IntT(0))))))
		}
	}
	st.ev[kind] = e
	return e
}

func (x *Exec) recordEvent(st *State, kind string, args []Value, results []Value) {
	var as, rs []*Term
	var asorts, rsorts []string
	for _, a := range args {
		t := x.term(a)
		switch fv := a.(type) {
		case *ClosureV:
			t = StrT(funcKey(x.w.unwrapBound(fv.fn))) // function values are logged by the name of the function they denote
			if m := boundIfaceMethod(fv.fn); m != "" {
				t = StrT("method:" + m) // a method value of an interface (t.converter.BinaryOperation): by the method's name
			}
		case *ParamFuncV:
			t = StrT("param:" + fv.name)
		case *BoundMethodV:
			t = StrT("method:" + fv.name)
		case *PtrV:
			// a receiver / pointer argument is logged as a snapshot of its pointee at the time of the call
			if len(fv.path) == 0 {
				if cur, ok := st.cells[fv.cell].(*Term); ok {
					t = cur
				}
			}
		}
		if a == nil {
			t = StrT("")
		}
		if t == nil || t.Sort == "Opaque" {
			t = IntT(0)
		}
		as = append(as, t)
		asorts = append(asorts, t.Sort)
	}
	for _, r := range results {
		t := x.term(r)
		if t == nil || t.Sort == "Opaque" {
			t = IntT(0)
		}
		rs = append(rs, t)
		rsorts = append(rsorts, t.Sort)
	}
	e := x.evKind(st, kind, asorts, rsorts)
	if len(e.args) != len(as) || len(e.res) != len(rs) {
		x.note("event %s with inconsistent arity", kind)
		return
	}
	for i := range as {
		if e.argSorts[i] != as[i].Sort {
			x.note("event %s arg %d sort mismatch %s vs %s", kind, i, e.argSorts[i], as[i].Sort)
			return
		}
		e.args[i] = Store(e.args[i], e.n, as[i])
	}
	for i := range rs {
		if e.resSorts[i] != rs[i].Sort {
			return
		}
		e.res[i] = Store(e.res[i], e.n, rs[i])
	}
	if st.clock == nil {
		st.clock = IntT(0)
	}
	e.seq = Store(e.seq, e.n, st.clock)
	e.n = Add(e.n, IntT(1))
	st.clock = Add(st.clock, IntT(1))
}

func (x *Exec) havocEvents(st *State) {
	if x.loopKinds != nil {
		// only the kinds the loop body can log are forgotten; the clock still advances
		x.fresh++
		ep := fmt.Sprintf("!e%d", x.fresh)
		oldClock := st.clock
		if oldClock == nil {
			oldClock = IntT(0)
		}
		names := make([]string, 0, len(x.loopKinds))
		for k := range x.loopKinds {
			names = append(names, k)
		}
		sort.Strings(names)
		saveEpoch, saveClock := st.evEpoch, st.epochClock
		st.clock = VarT("ev_clock"+ep, "Int")
		st.assume(Cmp(">=", st.clock, oldClock))
		st.evEpoch, st.epochClock = ep, st.clock
		for _, kname := range names {
			o, ok := st.ev[kname]
			var as, rs []string
			if ok {
				as, rs = o.argSorts, o.resSorts
			} else {
				var found bool
				as, rs, found = x.w.eventSorts(kname, st.top().fn)
				if !found {
					if os.Getenv("GOVC_DEBUG") != "" {
						fmt.Fprintf(os.Stderr, "havocEvents: no sorts for kind %s\n", kname)
					}
					continue
				}
			}
			delete(st.ev, kname)
			ne := x.evKind(st, kname, as, rs)
			if ok {
				x.logAppendOnly(st, o, ne)
			}
		}
		// kinds not touched by the loop keep their log; later lazily created kinds are concrete again
		st.evEpoch, st.epochClock = saveEpoch, saveClock
		if saveEpoch != "" {
			st.evEpoch, st.epochClock = saveEpoch, saveClock
		}
		return
	}
	x.fresh++
	st.evEpoch = fmt.Sprintf("!e%d", x.fresh)
	old := st.ev
	st.ev = map[string]*EvKind{}
	kinds := make([]string, 0, len(old))
	for kname := range old {
		kinds = append(kinds, kname)
	}
	sort.Strings(kinds)
	oldClock := st.clock
	if oldClock == nil {
		oldClock = IntT(0)
	}
	st.clock = VarT("ev_clock"+st.evEpoch, "Int")
	st.assume(Cmp(">=", st.clock, oldClock))
	st.epochClock = st.clock
	// re-create the kinds known so far with the ordering fact
	st.ev = map[string]*EvKind{}
	for _, kname := range kinds {
		o := old[kname]
		ne := x.evKind(st, kname, o.argSorts, o.resSorts)
		x.logAppendOnly(st, o, ne)
	}
}

// ---------------------------------------------------------------- maps (heap of map contents)

func (x *Exec) heap(st *State, contentSort string) *Term {
	if h, ok := st.heaps[contentSort]; ok {
		return h
	}
	if x.pureMode {
		h := VarT("p_heap_"+contentSort, "(Array Int "+contentSort+")")
		st.heaps[contentSort] = h
		x.pureHeaps[contentSort] = h
		return h
	}
	h := VarT("heap0_"+contentSort+st.heapEpoch, "(Array Int "+contentSort+")")
	st.heaps[contentSort] = h
	return h
}

func (x *Exec) havocHeap(st *State, contentSort string) {
	st.heaps[contentSort] = x.freshVar("heap_"+contentSort, "(Array Int "+contentSort+")")
}

func (x *Exec) allHeapsHavocked(st *State) {
	x.fresh++
	st.heapEpoch = fmt.Sprintf("!h%d", x.fresh)
}

func mapSorts(w *World, m *types.Map) (content, ks, vs string) {
	return w.mapSort(m), w.sortOf(m.Key()), w.sortOf(m.Elem())
}

func (x *Exec) doMakeMap(st *State, in *ssa.MakeMap) {
	m := in.Type().Underlying().(*types.Map)
	cs, ks, vs := mapSorts(x.w, m)
	if x.pureMode {
		x.pureFail = "map allocation"
	}
	ref := x.newRef(st)
	h := x.heap(st, cs)
	empty := Mk("mk_"+cs, App("(as const (Array "+ks+" Bool))", "(Array "+ks+" Bool)", False), x.freshVar("mapvals", "(Array "+ks+" "+vs+")"))
	st.heaps[cs] = Store(h, ref, empty)
	st.top().env[in] = ref
}

func (x *Exec) newRef(st *State) *Term {
	if st.alloc == nil {
		st.alloc = VarT("alloc0", "Int")
		st.assume(Cmp(">=", st.alloc, IntT(0)))
	}
	st.alloc = Add(st.alloc, IntT(1))
	return st.alloc
}

func (x *Exec) doMapUpdate(st *State, in *ssa.MapUpdate) {
	m := in.Map.Type().Underlying().(*types.Map)
	cs, ks, vs := mapSorts(x.w, m)
	if x.pureMode {
		x.pureFail = "map update"
	}
	ref := x.mustTerm(x.get(st, in.Map), "map")
	key := x.mustTerm(x.get(st, in.Key), "map key")
	val := x.mustTerm(x.get(st, in.Value), "map value")
	x.oblige(st, "safety", "nil-map-write:"+x.srcAt(in.Pos()), []string{"C13"}, Neq(ref, IntT(0)), in.Pos())
	h := x.heap(st, cs)
	c := Select(h, ref, cs)
	has := Sel(cs+"_has", c)
	vals := Sel(cs+"_val", c)
	nc := Mk("mk_"+cs, App("store", "(Array "+ks+" Bool)", has, key, True), App("store", "(Array "+ks+" "+vs+")", vals, key, val))
	st.heaps[cs] = Store(h, ref, nc)
}

func (x *Exec) doLookup(st *State, in *ssa.Lookup) {
	fr := st.top()
	if bt, ok := in.X.Type().Underlying().(*types.Basic); ok && bt.Info()&types.IsString != 0 {
		s := x.mustTerm(x.get(st, in.X), "string index")
		idx := x.mustTerm(x.get(st, in.Index), "string index")
		x.oblige(st, "safety", "index:"+x.srcAt(in.Pos()), []string{"C13"}, And(Cmp(">=", idx, IntT(0)), Cmp("<", idx, StrLen(s))), in.Pos())
		fr.env[in] = strByteAt(s, idx)
		return
	}
	m := in.X.Type().Underlying().(*types.Map)
	cs, _, vs := mapSorts(x.w, m)
	ref := x.mustTerm(x.get(st, in.X), "map")
	key := x.mustTerm(x.get(st, in.Index), "map key")
	h := x.heap(st, cs)
	c := Select(h, ref, cs)
	has := And(Neq(ref, IntT(0)), Select(Sel(cs+"_has", c), key, "Bool"))
	raw := Select(Sel(cs+"_val", c), key, vs)
	x.assumeWellFormed(st, raw, m.Elem())
	val := Ite(has, raw, x.w.zero(m.Elem()))
	if in.CommaOk {
		fr.env[in] = &TupleV{vals: []Value{val, has}}
	} else {
		fr.env[in] = val
	}
}

// range over maps / strings: Next yields an arbitrary element that is present.
type RangeV struct {
	over  Value
	typ   types.Type
	count int
}

func (x *Exec) doRange(st *State, in *ssa.Range) {
	st.top().env[in] = &RangeV{over: x.get(st, in.X), typ: in.X.Type()}
}

func (x *Exec) doNext(st *State, in *ssa.Next) {
	fr := st.top()
	rv, ok := x.get(st, in.Iter).(*RangeV)
	if !ok {
		x.outside = "Next on non-range"
		return
	}
	okv := x.freshVar("next_ok", "Bool")
	if m, isMap := rv.typ.Underlying().(*types.Map); isMap {
		cs, ks, vs := mapSorts(x.w, m)
		ref := x.mustTerm(rv.over, "range map")
		key := x.freshVar("next_k", ks)
		h := x.heap(st, cs)
		c := Select(h, ref, cs)
		st.assume(Implies(okv, And(Neq(ref, IntT(0)), Select(Sel(cs+"_has", c), key, "Bool"))))
		val := Select(Sel(cs+"_val", c), key, vs)
		fr.env[in] = &TupleV{vals: []Value{okv, key, val}}
		return
	}
	// string
	s := x.mustTerm(rv.over, "range string")
	i := x.freshVar("next_i", "Int")
	st.assume(Implies(okv, And(Cmp(">=", i, IntT(0)), Cmp("<", i, StrLen(s)))))
	fr.env[in] = &TupleV{vals: []Value{okv, i, x.freshVar("next_r", "Int")}}
}

// isModular: functions that are always treated modularly (never inlined), even
// without a contract: the parser's and the transpiler's evaluate* family.
func (w *World) isModular(fn *ssa.Function) bool {
	key := funcKey(fn)
	if fc := w.contracts[key]; fc != nil {
		if fc.Flags["inline"] {
			return false
		}
		if fc.Flags["modular"] {
			return true
		}
	}
	if strings.HasPrefix(key, "parser.(*Parser).evaluate") || strings.HasPrefix(key, "transpiler.(*transpiler).evaluate") {
		return !strings.Contains(key, "$")
	}
	if key == "parser.(*Parser).parse" || key == "lexer.Tokenize" || key == "parser.(*Parser).getUsedFuncs" || key == "parser.(*Parser).cleanProgram" {
		return true
	}
	return false
}

// logAppendOnly: the event log only grows, so entries recorded before a cut are
// still there after it (a frame property of the ghost log itself).
func (x *Exec) logAppendOnly(st *State, old, nw *EvKind) {
	st.assume(Cmp(">=", nw.n, old.n))
	same := func(k *Term) *Term {
		var parts []*Term
		for i := range old.args {
			parts = append(parts, Eq(Select(nw.args[i], k, old.argSorts[i]), Select(old.args[i], k, old.argSorts[i])))
		}
		for i := range old.res {
			parts = append(parts, Eq(Select(nw.res[i], k, old.resSorts[i]), Select(old.res[i], k, old.resSorts[i])))
		}
		parts = append(parts, Eq(Select(nw.seq, k, "Int"), Select(old.seq, k, "Int")))
		return And(parts...)
	}
	if old.n.Kind == KInt && old.n.I <= 6 {
		for i := int64(0); i < old.n.I; i++ {
			st.assume(same(IntT(i)))
		}
		return
	}
	x.fresh++
	kq := VarT(fmt.Sprintf("k!l%d", x.fresh), "Int")
	var parts []*Term
	for i := range old.args {
		parts = append(parts, Eq(App("select", old.argSorts[i], nw.args[i], kq), App("select", old.argSorts[i], old.args[i], kq)))
	}
	for i := range old.res {
		parts = append(parts, Eq(App("select", old.resSorts[i], nw.res[i], kq), App("select", old.resSorts[i], old.res[i], kq)))
	}
	parts = append(parts, Eq(App("select", "Int", nw.seq, kq), App("select", "Int", old.seq, kq)))
	st.assume(Quant("forall", []*Term{kq}, Implies(And(Cmp("<=", IntT(0), kq), Cmp("<", kq, old.n)), And(parts...))))
}

// checkParamContracts: a function value passed for a parameter that carries a
// `param` contract must itself guarantee that contract.  For a named function or
// bound method the obligation is "its ensures clauses imply the param clause",
// checked on fresh symbolic results.
// checkTypeInvs: by-value arguments of an annotated struct type must satisfy the type's invariant
// at a call that is not inlined (the callee assumes it).
func (x *Exec) checkTypeInvs(st *State, callee *ssa.Function, args []Value, pos token.Pos) {
	if fc := x.w.contracts[funcKey(callee)]; fc != nil && fc.Flags["notypeinv"] {
		return
	}
	for i := range callee.Params {
		if i >= len(args) {
			break
		}
		for _, c := range x.w.paramInvsFor(callee, i) {
			env := x.newSpecEnv(st, st, callee)
			env.vars[c.Param] = args[i]
			g, err := env.evalBool(c.Expr)
			if err != nil {
				x.contractError(c, err)
				continue
			}
			x.obligeAssume(st, "requires", funcKey(callee)+":type-invariant:"+c.Label+"@"+x.srcAt(pos), c.Props, g, pos)
		}
	}
}

func (x *Exec) checkParamContracts(st *State, callee *ssa.Function, fc *FuncContract, args []Value, pos token.Pos) {
	x.checkTypeInvs(st, callee, args, pos)
	common := x.w.commonPostFor(callee)
	if invs, _ := x.w.recvInvFor(callee); len(invs) > 0 {
		// a function value handed to a method must also keep the receiver invariants
		common = append(append([]*Clause{}, common...), invs...)
	}
	if (fc == nil || len(fc.Params) == 0) && len(common) == 0 {
		return
	}
	for i, p := range callee.Params {
		if _, isFn := p.Type().Underlying().(*types.Signature); !isFn {
			continue
		}
		var clauses []*Clause
		if fc != nil {
			clauses = fc.Params[p.Name()]
		}
		if len(clauses)+len(common) == 0 || i >= len(args) {
			continue
		}
		if cv, ok := args[i].(*ClosureV); ok && x.w.unwrapBound(cv.fn).Parent() != nil {
			x.checkClosureAgainst(st, callee, p.Name(), cv, clauses, common, args, pos)
			continue
		}
		cv, ok := args[i].(*ClosureV)
		if !ok {
			if pf, ok := args[i].(*ParamFuncV); ok && pf.fc != nil {
				// forwarding our own parameter: its contract must have a clause of the same label
				for _, c := range clauses {
					found := false
					for _, oc := range pf.fc.Params[pf.name] {
						if oc.Label == c.Label && oc.Text == c.Text {
							found = true
						}
					}
					g := True
					if !found {
						g = False
					}
					x.oblige(st, "requires", funcKey(callee)+":param-"+p.Name()+":"+c.Label+"@"+x.srcAt(pos), c.Props, g, pos)
				}
			}
			continue
		}
		target := x.w.unwrapBound(cv.fn)
		tfc := x.w.contracts[funcKey(target)]
		sig := target.Signature
		scratch := st.clone()
		// a named method of the same type guarantees the type-wide postconditions by its own check
		_ = common
		results := x.havocResults(sig, "pf_"+target.Name())
		env := x.newSpecEnv(scratch, scratch, target)
		// assume the target's own ensures on these results
		if tfc != nil {
			tenv := x.newSpecEnv(scratch, scratch, target)
			for j, tp := range target.Params {
				tenv.vars[tp.Name()] = x.havocOfType("pfarg_"+tp.Name(), tp.Type())
				_ = j
			}
			tenv.setResults(target, results)
			for _, c := range tfc.Ensures {
				if mentionsEvents(c.Expr) || mentionsOld(c.Expr) || hasProp(c.Props, "FINDING") {
					continue
				}
				if g, err := tenv.evalBool(c.Expr); err == nil {
					scratch.assume(g)
				}
			}
		}
		for j, r := range results {
			env.vars["result"+fmt.Sprint(j)] = r
		}
		if len(results) > 0 {
			env.vars["result"] = results[0]
			if sig.Results().At(len(results)-1).Type().String() == "error" {
				env.vars["err"] = results[len(results)-1]
			}
		}
		for _, c := range clauses {
			if c.Kind != "ensures" {
				continue
			}
			g, err := env.evalBool(c.Expr)
			if err != nil {
				x.contractError(c, err)
				continue
			}
			x.oblige(scratch, "requires", funcKey(callee)+":param-"+p.Name()+":"+c.Label+"@"+x.srcAt(pos), c.Props, g, pos)
		}
	}
}

func mentionsOld(e ast.Expr) bool {
	found := false
	ast.Inspect(e, func(n ast.Node) bool {
		if c, ok := n.(*ast.CallExpr); ok {
			if id, ok := c.Fun.(*ast.Ident); ok && id.Name == "old" {
				found = true
			}
		}
		return true
	})
	return found
}

// unwrapBound: the method behind a bound-method wrapper (p.evaluateX used as a value).
// boundIfaceMethod: for the synthetic wrapper of a method value taken from an interface, the name of
// the method it invokes ("" for anything else).
func boundIfaceMethod(fn *ssa.Function) string {
	if fn.Synthetic == "" || len(fn.Blocks) == 0 {
		return ""
	}
	for _, b := range fn.Blocks {
		for _, ins := range b.Instrs {
			if c, ok := ins.(*ssa.Call); ok && c.Call.IsInvoke() && c.Call.Method != nil {
				return c.Call.Method.Name()
			}
		}
	}
	return ""
}

func (w *World) unwrapBound(fn *ssa.Function) *ssa.Function {
	if fn.Synthetic == "" || len(fn.Blocks) == 0 {
		return fn
	}
	for _, b := range fn.Blocks {
		for _, ins := range b.Instrs {
			if c, ok := ins.(*ssa.Call); ok {
				if callee := c.Call.StaticCallee(); callee != nil {
					return callee
				}
			}
		}
	}
	return fn
}

// checkClosureAgainst: an anonymous function passed for a contracted parameter is executed
// symbolically on arbitrary arguments (it shares the captured variables of the current state) and
// must satisfy the param clauses and the type-wide postconditions at each of its returns.
func (x *Exec) checkClosureAgainst(st *State, callee *ssa.Function, pname string, cv *ClosureV, clauses, common []*Clause, actual []Value, pos token.Pos) {
	if len(st.frames) >= maxInlineDepth {
		return
	}
	scratch := st.clone()
	entry := scratch.clone()
	var cargs []Value
	for _, p := range cv.fn.Params {
		v := x.havocOfType("cl_"+p.Name(), p.Type())
		if t, ok := v.(*Term); ok {
			for _, f := range x.typeFacts(t, p.Type(), 0) {
				scratch.assume(f)
			}
		}
		cargs = append(cargs, v)
	}
	root := st.frames[0]
	// the callee promises these about the arguments it calls the function value with
	{
		renv := x.newSpecEnv(scratch, scratch, callee)
		for i, p := range callee.Params {
			if i < len(actual) {
				renv.vars[p.Name()] = actual[i]
			}
		}
		for i, p := range cv.fn.Params {
			renv.vars["arg"+fmt.Sprint(i)] = cargs[i]
			renv.vars["param_"+p.Name()] = cargs[i]
		}
		for _, c := range clauses {
			if c.Kind != "requires" {
				continue
			}
			if g, err := renv.evalBool(c.Expr); err == nil {
				scratch.assume(g)
			} else {
				x.contractError(c, err)
			}
		}
	}
	x.runFunc(scratch, cv.fn, cargs, cv.binds, func(s2 *State, res []Value) {
		env := x.newSpecEnv(s2, entry, root.fn)
		env.bindRootParams(s2.frames[0])
		for j, r := range res {
			env.vars["result"+fmt.Sprint(j)] = r
		}
		if len(res) > 0 {
			env.vars["result"] = res[0]
			if cv.fn.Signature.Results().At(len(res)-1).Type().String() == "error" {
				env.vars["err"] = res[len(res)-1]
			}
		}
		for _, c := range clauses {
			if c.Kind != "ensures" {
				continue
			}
			g, err := env.evalBool(c.Expr)
			if err != nil {
				x.contractError(c, err)
				continue
			}
			x.oblige(s2, "requires", funcKey(callee)+":param-"+pname+":"+c.Label+"@"+x.srcAt(pos), c.Props, g, pos)
		}
		for _, c := range common {
			if c.Kind == "recvinv" {
				if len(root.fn.Params) == 0 {
					continue
				}
				env.vars[c.Param] = env.vars[root.fn.Params[0].Name()]
			}
			g, err := env.evalBool(c.Expr)
			if err != nil {
				continue
			}
			x.oblige(s2, "requires", funcKey(callee)+":param-"+pname+":common:"+c.Label+"@"+x.srcAt(pos), c.Props, g, pos)
		}
	})
}

// assumeWellFormed: a value read out of a map heap satisfies the representation facts of its Go
// type (slice lengths are not negative, ...): every value ever stored did. Only for closed terms.
func (x *Exec) assumeWellFormed(st *State, val *Term, t types.Type) {
	if st == nil || val == nil {
		return
	}
	fv := map[string]string{}
	collectVars(val, fv)
	for v := range fv {
		if i := strings.LastIndex(v, "!"); i >= 0 && i+1 < len(v) {
			switch v[i+1] {
			case 'b', 'q', 'p', 'c', 's':
				return
			}
		}
	}
	for _, f := range x.typeFacts(val, t, 0) {
		if f.Kind == KQuant {
			continue
		}
		st.assume(f)
	}
}

// conjuncts splits a && b && c.
func conjuncts(e ast.Expr) []ast.Expr {
	switch n := e.(type) {
	case *ast.ParenExpr:
		return conjuncts(n.X)
	case *ast.BinaryExpr:
		if n.Op == token.LAND {
			return append(conjuncts(n.X), conjuncts(n.Y)...)
		}
	}
	return []ast.Expr{e}
}

func mentionsResult(e ast.Expr) bool {
	found := false
	ast.Inspect(e, func(n ast.Node) bool {
		if id, ok := n.(*ast.Ident); ok && (strings.HasPrefix(id.Name, "result") || id.Name == "err") {
			found = true
		}
		return true
	})
	return found
}
