package main

import (
	"sort"
	"fmt"
	"time"
	"go/ast"
	"go/token"
	"go/types"
	"strings"

	"golang.org/x/tools/go/ast/astutil"
	"golang.org/x/tools/go/ssa"
)

func newExec(w *World, rootKey string) *Exec {
	return &Exec{w: w, rootKey: rootKey, maxPaths: 6000, usedAssume: map[string]bool{}, libUsed: map[string]bool{}, safetyOn: true}
}

func newState() *State {
	return &State{cells: map[*Cell]Value{}, heaps: map[string]*Term{}, ev: map[string]*EvKind{}}
}

// quantFree: the facts without quantifiers.  A vacuity guard asks a solver for a *model*; quantified
// facts (invariants over all elements of a list, node invariants) make that search time out without
// ever being the reason for a contradiction in practice, so the guards look at the quantifier-free
// part of the assumptions / path conditions only (a weaker, but decidable, sanity check).
func quantFree(ts []*Term) []*Term {
	var out []*Term
	for _, t := range ts {
		if !hasQuant(t) {
			out = append(out, t)
		}
	}
	return out
}

var funcBudgetSec = 20

var srcCache = map[token.Pos]string{}

func (w *World) srcText(pos token.Pos) string {
	if !pos.IsValid() {
		return "?"
	}
	if s, ok := srcCache[pos]; ok {
		return s
	}
	res := "?"
	for _, p := range w.pkgs {
		for _, f := range p.Syntax {
			if f.Pos() <= pos && pos < f.End() {
				path, _ := astutil.PathEnclosingInterval(f, pos, pos)
				for _, n := range path {
					switch e := n.(type) {
					case *ast.IndexExpr, *ast.SliceExpr, *ast.TypeAssertExpr, *ast.CallExpr, *ast.StarExpr, *ast.BinaryExpr, *ast.SelectorExpr:
						res = types.ExprString(e.(ast.Expr))
						if len(res) > 70 {
							res = res[:70]
						}
						res = strings.Join(strings.Fields(res), " ")
						srcCache[pos] = res
						return res
					}
				}
			}
		}
	}
	srcCache[pos] = res
	return res
}

type FuncResult struct {
	Key     string
	Obls    []*Obl
	Paths   int
	Outside string
	Notes   []string
	Assumed []string
	Libs    []string
	ContractErrs int
	Returns int
}

// verifyFunc generates all obligations of one function: safety, requires at
// call sites, loop invariants, ensures at every return.
func (w *World) verifyFunc(fn *ssa.Function) *FuncResult {
	key := funcKey(fn)
	x := newExec(w, key)
	fc := w.contracts[key]
	x.rootFC = fc
	st := newState()
	var args, binds []Value
	mkParam := func(name string, t types.Type, isFree bool) Value {
		if isFree {
			// captured variable: pointer to its cell
			pt := t.(*types.Pointer).Elem()
			c := x.newCell(name, pt)
			if _, isFn := pt.Underlying().(*types.Signature); isFn {
				st.cells[c] = &ParamFuncV{name: name, fc: fc, sig: pt.Underlying().(*types.Signature)}
				return &PtrV{cell: c}
			}
			if pp, ok := pt.Underlying().(*types.Pointer); ok {
				if _, isSt := pp.Elem().Underlying().(*types.Struct); isSt {
					inner := x.newCell(name+"_pointee", pp.Elem())
					v := VarT(name, w.sortOf(pp.Elem()))
					st.cells[inner] = v
					for _, f := range x.typeFacts(v, pp.Elem(), 0) {
						st.assume(f)
					}
					st.cells[c] = &PtrV{cell: inner}
					return &PtrV{cell: c}
				}
			}
			v := VarT(name, w.sortOf(pt))
			st.cells[c] = v
			for _, f := range x.typeFacts(v, pt, 0) {
				st.assume(f)
			}
			return &PtrV{cell: c}
		}
		switch u := t.Underlying().(type) {
		case *types.Pointer:
			if _, ok := u.Elem().Underlying().(*types.Struct); ok {
				if isHandleType(u.Elem()) {
					c := x.newCell(name, u.Elem())
					v := VarT(name, w.sortOf(u.Elem()))
					st.cells[c] = v
					for _, f := range x.typeFacts(v, u.Elem(), 0) {
						st.assume(f)
					}
					return &PtrV{cell: c}
				}
			}
		case *types.Signature:
			return &ParamFuncV{name: name, fc: fc, sig: u}
		}
		v := VarT(name, w.sortOf(t))
		for _, f := range x.typeFacts(v, t, 0) {
			st.assume(f)
		}
		return v
	}
	for _, p := range fn.Params {
		args = append(args, mkParam(p.Name(), p.Type(), false))
	}
	for _, p := range fn.FreeVars {
		binds = append(binds, mkParam(p.Name(), p.Type(), true))
	}
	x.pureCellBase = 1 << 30
	// every map reachable from the inputs was allocated before the call
	st.alloc = VarT("alloc0", "Int")
	st.assume(Cmp(">=", st.alloc, IntT(0)))
	for i, p := range fn.Params {
		var t *Term
		typ := p.Type()
		switch a := args[i].(type) {
		case *Term:
			t = a
		case *PtrV:
			t, _ = st.cells[a.cell].(*Term)
			if pt, ok := typ.Underlying().(*types.Pointer); ok {
				typ = pt.Elem()
			}
		}
		if t != nil {
			for _, leaf := range x.mapLeaves(t, typ, 0) {
				st.assume(Cmp("<=", leaf, st.alloc))
			}
		}
	}
	// requires
	fr := x.bindParams(st, fn, args, binds)
	fr.root = true
	st.frames = append(st.frames, fr)
	if fc != nil {
		env := x.newSpecEnv(st, st, fn)
		env.bindRootParams(fr)
		for _, c := range fc.Requires {
			g, err := env.evalBool(c.Expr)
			if err != nil {
				x.contractError(c, err)
				continue
			}
			st.assume(g)
		}
	}
	// type invariants of by-value parameters (assumed here, checked where such values are passed on)
	if ffc := w.contracts[key]; ffc == nil || !ffc.Flags["notypeinv"] {
		for i := range fn.Params {
			for _, c := range w.paramInvsFor(fn, i) {
				env := x.newSpecEnv(st, st, fn)
				env.vars[c.Param] = args[i]
				if g, err := env.evalBool(c.Expr); err == nil {
					st.assume(g)
				} else {
					x.contractError(c, err)
				}
			}
		}
	}
	invs, invRecv := w.recvInvFor(fn)
	evalInv := func(s *State, c *Clause) (*Term, error) {
		env := x.newSpecEnv(s, s, fn)
		env.bindRootParams(s.frames[0])
		env.vars[c.Param] = env.vars[invRecv]
		return env.evalBool(c.Expr)
	}
	for _, c := range invs {
		g, err := evalInv(st, c)
		if err != nil {
			x.contractError(c, err)
			continue
		}
		st.assume(g)
	}
	st.old = st.clone()
	res := &FuncResult{Key: key}
	if len(fn.Blocks) == 0 {
		res.Outside = "no body"
		return res
	}
	if reason := w.outsideSubset(fn); reason != "" {
		res.Outside = reason
		return res
	}
	// replay information: the entry values of the parameters
	var rin []NamedTerm
	for i, p := range fn.Params {
		switch a := args[i].(type) {
		case *Term:
			rin = append(rin, NamedTerm{Name: p.Name(), T: a, Typ: p.Type()})
		case *PtrV:
			if t, ok := st.old.cells[a.cell].(*Term); ok {
				rin = append(rin, NamedTerm{Name: p.Name(), T: t, Typ: p.Type()})
			}
		default:
			rin = append(rin, NamedTerm{Name: p.Name(), T: nil, Typ: p.Type()})
		}
	}
	x.curReplay = &ReplayInfo{Fn: fn, Inputs: rin}
	x.deadline = time.Now().Add(time.Duration(funcBudgetSec) * time.Second)
	// vacuity guards: what is assumed at entry (preconditions, receiver / type invariants) must be
	// satisfiable, and with a postcondition to prove some return must be reachable -- otherwise
	// every obligation of the function would be discharged for no reason.
	var vprops []string
	if fc != nil {
		seen := map[string]bool{}
		add := func(cs []*Clause) {
			for _, c := range cs {
				for _, pr := range c.Props {
					if !seen[pr] && pr != "FINDING" {
						seen[pr] = true
						vprops = append(vprops, pr)
					}
				}
			}
		}
		add(fc.Requires)
		add(fc.Ensures)
		for _, cs := range fc.Loops {
			add(cs)
		}
		for _, cs := range fc.LoopsByText {
			add(cs)
		}
		sort.Strings(vprops)
	}
	assumedSomething := (fc != nil && len(fc.Requires) > 0) || len(invs) > 0
	if assumedSomething && len(vprops) > 0 {
		x.obls = append(x.obls, &Obl{Name: key + "#vacuity#entry-assumptions-are-consistent", Func: key, Kind: "vacuity", Label: "entry-assumptions-are-consistent",
			Props: vprops, Assumes: quantFree(st.pc.list()), Goal: False})
	}
	var retPCs []*Term
	x.runBlock(st, fn.Blocks[0], nil, func(s2 *State, results []Value) {
		res.Returns++
		if len(retPCs) < 64 {
			retPCs = append(retPCs, And(quantFree(s2.pc.list())...))
		}
		ri := &ReplayInfo{Fn: fn, Inputs: rin}
		for i, r := range results {
			if t := x.term(r); t != nil {
				ri.Obs = append(ri.Obs, NamedTerm{Name: fmt.Sprintf("result%d", i), T: t, Typ: fn.Signature.Results().At(i).Type()})
			}
		}
		if fn.Signature.Recv() != nil && len(fn.Params) > 0 {
			if pv, ok := s2.frames[0].env[fn.Params[0]].(*PtrV); ok {
				if t, ok := s2.cells[pv.cell].(*Term); ok {
					ri.Obs = append(ri.Obs, NamedTerm{Name: "recv", T: t, Typ: fn.Params[0].Type()})
				}
			}
		}
		saveReplay := x.curReplay
		x.curReplay = ri
		defer func() { x.curReplay = saveReplay }()
		for _, c := range invs {
			g, err := evalInv(s2, c)
			if err != nil {
				x.contractError(c, err)
				continue
			}
			x.oblige(s2, "ensures", "receiver-invariant:"+c.Label, c.Props, g, token.NoPos)
		}
		for _, c := range w.commonPostFor(fn) {
			env := x.newSpecEnv(s2, s2.old, fn)
			env.bindRootParams(s2.frames[0])
			env.setResults(fn, results)
			g, err := env.evalBool(c.Expr)
			if err != nil {
				x.contractError(c, err)
				continue
			}
			x.oblige(s2, "ensures", "common:"+c.Label, c.Props, g, token.NoPos)
		}
		if fc == nil {
			return
		}
		env := x.newSpecEnv(s2, s2.old, fn)
		env.bindRootParams(s2.frames[0])
		env.setResults(fn, results)
		env.frame = s2.frames[0]
		env.atBlock = s2.retBlock
		for _, c := range fc.Ensures {
			g, err := env.evalBool(c.Expr)
			if err != nil {
				x.contractError(c, err)
				continue
			}
			x.oblige(s2, "ensures", c.Label, c.Props, g, token.NoPos)
		}
	})
	if len(retPCs) > 4 {
		// the simplest path conditions are the easiest to find a model for
		sort.SliceStable(retPCs, func(i, j int) bool { return len(retPCs[i].String()) < len(retPCs[j].String()) })
		retPCs = retPCs[:4]
	}
	if fc != nil && len(fc.Ensures) > 0 && len(retPCs) > 0 && len(vprops) > 0 {
		x.obls = append(x.obls, &Obl{Name: key + "#vacuity#some-return-is-reachable", Func: key, Kind: "vacuity", Label: "some-return-is-reachable",
			Props: vprops, Goal: Not(Or(retPCs...))})
	}
	res.Obls = x.obls
	res.Paths = x.paths + 1
	res.Outside = x.outside
	res.Notes = x.notes
	res.ContractErrs = x.contractErrs
	for k := range x.usedAssume {
		res.Assumed = append(res.Assumed, k)
	}
	for k := range x.libUsed {
		res.Libs = append(res.Libs, k)
	}
	return res
}

// isHandleType: structs that are only ever used through one pointer and mutated in place.
func isHandleType(t types.Type) bool {
	n, ok := t.(*types.Named)
	if !ok {
		return false
	}
	switch n.Obj().Name() {
	case "converter", "Parser", "transpiler":
		return true
	}
	return false
}

// outsideSubset refuses functions using constructs the engine does not model.
func (w *World) outsideSubset(fn *ssa.Function) string {
	for _, b := range fn.Blocks {
		for _, ins := range b.Instrs {
			switch ins.(type) {
			case *ssa.Go, *ssa.Defer, *ssa.Select, *ssa.Send, *ssa.MakeChan:
				return fmt.Sprintf("uses %T", ins)
			}
		}
	}
	return ""
}

// mapLeaves: the map references directly contained in a value (struct fields, not slice elements).
func (x *Exec) mapLeaves(t *Term, typ types.Type, depth int) []*Term {
	if depth > 3 {
		return nil
	}
	switch u := typ.Underlying().(type) {
	case *types.Map:
		return []*Term{t}
	case *types.Struct:
		d := x.w.dts[t.Sort]
		if d == nil {
			return nil
		}
		var out []*Term
		for i := 0; i < u.NumFields(); i++ {
			out = append(out, x.mapLeaves(Sel(d.Ctors[0].Sels[i], t), u.Field(i).Type(), depth+1)...)
		}
		return out
	}
	return nil
}
