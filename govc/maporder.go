package main

// Map-iteration order independence (C14): a conservative syntactic check, not an
// SMT obligation.  For every loop that ranges over a map, the body may only
//   - read,
//   - write into a map at the key of the current iteration (directly or with an
//     append whose only use is that write), and
//   - call side-effect free functions.
// Anything else (appending to a slice that lives on, emitting lines, calling
// effectful code) could make the result depend on Go's randomised iteration
// order and fails the obligation  <func>#map-order#loop<k>.

import (
	"fmt"
	"go/types"

	"golang.org/x/tools/go/ssa"
)

func (w *World) mapOrderObligations(fn *ssa.Function) []*Obl {
	li := loopInfoFor(fn)
	if li == nil {
		return nil
	}
	var out []*Obl
	for _, lp := range li.loops {
		// does the header consume a map iterator?
		var next *ssa.Next
		for _, ins := range lp.header.Instrs {
			if n, ok := ins.(*ssa.Next); ok && !n.IsString {
				if r, ok := n.Iter.(*ssa.Range); ok {
					if _, isMap := r.X.Type().Underlying().(*types.Map); isMap {
						next = n
					}
				}
			}
		}
		if next == nil {
			continue
		}
		// a nested slice loop inside is part of the same body; skip loops that are nested inside this one
		reason := w.mapBodyOrderDependent(fn, lp, next)
		goal := True
		if reason != "" {
			goal = False
		}
		key := funcKey(fn)
		o := &Obl{Name: fmt.Sprintf("%s#map-order#loop%d", key, lp.ord), Func: key, Kind: "map-order", Label: fmt.Sprintf("loop%d", lp.ord), Props: []string{"C14"}, Goal: goal}
		if reason != "" {
			o.Status = "sat"
			o.Solver = "map-order analysis"
			o.Model = reason
		}
		out = append(out, o)
	}
	return out
}

func (w *World) mapBodyOrderDependent(fn *ssa.Function, lp *Loop, next *ssa.Next) string {
	// the key of the current iteration
	var keyVal ssa.Value
	for _, ref := range *next.Referrers() {
		if ex, ok := ref.(*ssa.Extract); ok && ex.Index == 1 {
			keyVal = ex
		}
	}
	for b := range lp.blocks {
		for _, ins := range b.Instrs {
			switch in := ins.(type) {
			case *ssa.Store:
				r := w.rootOf(fn, in.Addr, 0)
				if r.kind == rootAlloc {
					if al, ok := r.alloc.(*ssa.Alloc); ok && lp.blocks[al.Block()] {
						continue // scratch storage allocated inside the body (varargs arrays)
					}
				}
				return fmt.Sprintf("store to memory that outlives the iteration at %s", w.prog.Fset.Position(in.Pos()))
			case *ssa.MapUpdate:
				if keyVal == nil || in.Key != keyVal {
					return fmt.Sprintf("map write at a key other than the iteration key at %s", w.prog.Fset.Position(in.Pos()))
				}
			case *ssa.Phi:
				// a loop-carried slice that grows: only allowed when it is consumed by a map write at the current key
				if _, isSlice := in.Type().Underlying().(*types.Slice); isSlice && in.Block() == lp.header {
					return fmt.Sprintf("slice %s is carried across iterations of a map range at %s", in.Comment, w.prog.Fset.Position(in.Pos()))
				}
			case ssa.CallInstruction:
				com := in.Common()
				if bi, ok := com.Value.(*ssa.Builtin); ok {
					if bi.Name() == "append" {
						// result must only feed a map write at the current key (possibly through nothing else)
						if v, ok := ins.(ssa.Value); ok {
							for _, ref := range *v.Referrers() {
								if mu, ok := ref.(*ssa.MapUpdate); ok && mu.Key == keyVal {
									continue
								}
								if _, ok := ref.(*ssa.DebugRef); ok {
									continue
								}
								if _, ok := ref.(*ssa.Phi); ok {
									// inner slice loop accumulating for the same key
									continue
								}
								return fmt.Sprintf("append result escapes the iteration at %s", w.prog.Fset.Position(in.Pos()))
							}
						}
					}
					continue
				}
				if com.IsInvoke() {
					if w.sortOf(com.Value.Type()) == "Opaque" {
						return fmt.Sprintf("interface call inside a map range at %s", w.prog.Fset.Position(in.Pos()))
					}
					continue
				}
				if callee := com.StaticCallee(); callee != nil {
					if !w.inRepo(callee) {
						name := libName(callee)
						switch name {
						case "slices.Contains", "strings.HasPrefix", "strings.TrimSpace", "fmt.Sprintf":
							continue
						}
						return fmt.Sprintf("library call %s inside a map range at %s", name, w.prog.Fset.Position(in.Pos()))
					}
					eff := w.effects(callee)
					if eff.opaque || eff.events || len(eff.heaps) > 0 || len(eff.fields) > 0 || eff.globals {
						return fmt.Sprintf("effectful call %s inside a map range at %s", funcKey(callee), w.prog.Fset.Position(in.Pos()))
					}
					continue
				}
				return fmt.Sprintf("call through a function value inside a map range at %s", w.prog.Fset.Position(in.Pos()))
			}
		}
	}
	return ""
}
