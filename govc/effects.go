package main

// Static may-modify analysis: which fields of which pointer parameters, which
// map heaps and whether events/opaque effects can occur in a function (or in a
// loop body).  Used for loop havoc and for the frame of a call that is replaced
// by the callee's contract.  It over-approximates: every store instruction is
// attributed to the root of its address.

import (
	"go/types"

	"golang.org/x/tools/go/ssa"
)

type Effects struct {
	fields  map[int]map[string]bool // param index -> field names ("*" = whole pointee)
	fv      map[int]map[string]bool // free-variable index -> field names / "*"
	heaps   map[string]bool         // map content sorts, "*" = all
	events  bool
	opaque  bool // calls code we cannot see with access to caller memory
	globals bool
	locals  map[ssa.Value]map[string]bool // Alloc roots written (loop analysis)
}

func newEffects() *Effects {
	return &Effects{fields: map[int]map[string]bool{}, fv: map[int]map[string]bool{}, heaps: map[string]bool{}, locals: map[ssa.Value]map[string]bool{}}
}

func addField(m map[int]map[string]bool, i int, f string) bool {
	if m[i] == nil {
		m[i] = map[string]bool{}
	}
	if m[i][f] {
		return false
	}
	m[i][f] = true
	return true
}

func (e *Effects) merge(o *Effects) bool {
	ch := false
	for h := range o.heaps {
		if !e.heaps[h] {
			e.heaps[h] = true
			ch = true
		}
	}
	if o.events && !e.events {
		e.events, ch = true, true
	}
	if o.opaque && !e.opaque {
		e.opaque, ch = true, true
	}
	if o.globals && !e.globals {
		e.globals, ch = true, true
	}
	return ch
}

type rootKind int

const (
	rootUnknown rootKind = iota
	rootParam
	rootFree
	rootAlloc
	rootGlobal
)

type rootInfo struct {
	kind  rootKind
	index int
	field string // first field on the path from the root ("" = whole)
	alloc ssa.Value
}

func (w *World) rootOf(fn *ssa.Function, v ssa.Value, depth int) rootInfo {
	if depth > 20 {
		return rootInfo{}
	}
	switch x := v.(type) {
	case *ssa.Parameter:
		for i, p := range fn.Params {
			if p == x {
				return rootInfo{kind: rootParam, index: i}
			}
		}
	case *ssa.FreeVar:
		for i, p := range fn.FreeVars {
			if p == x {
				return rootInfo{kind: rootFree, index: i}
			}
		}
	case *ssa.Alloc:
		return rootInfo{kind: rootAlloc, alloc: x}
	case *ssa.Global:
		return rootInfo{kind: rootGlobal}
	case *ssa.FieldAddr:
		r := w.rootOf(fn, x.X, depth+1)
		if r.field == "" && r.kind != rootUnknown {
			st := x.X.Type().Underlying().(*types.Pointer).Elem().Underlying().(*types.Struct)
			r.field = st.Field(x.Field).Name()
		}
		return r
	case *ssa.IndexAddr:
		if _, isPtr := x.X.Type().Underlying().(*types.Pointer); isPtr {
			return w.rootOf(fn, x.X, depth+1)
		}
		// element of a slice value: attribute to where the slice was loaded from
		if u, ok := x.X.(*ssa.UnOp); ok {
			return w.rootOf(fn, u.X, depth+1)
		}
		if _, ok := x.X.(*ssa.Parameter); ok {
			// write through a parameter slice (assumption A2): not a field effect
			return rootInfo{kind: rootAlloc, alloc: x.X}
		}
		return rootInfo{kind: rootAlloc, alloc: x.X}
	}
	return rootInfo{}
}

var effCache = map[*ssa.Function]*Effects{}
var effDone = false

func (w *World) allRepoFuncs() []*ssa.Function {
	var out []*ssa.Function
	seen := map[*ssa.Function]bool{}
	var add func(f *ssa.Function)
	add = func(f *ssa.Function) {
		if f == nil || seen[f] {
			return
		}
		seen[f] = true
		out = append(out, f)
		for _, a := range f.AnonFuncs {
			add(a)
		}
	}
	for _, name := range []string{"lexer", "parser", "transpiler", "bash", "batch", "main"} {
		sp := w.spkgs[name]
		if sp == nil {
			continue
		}
		for _, m := range sp.Members {
			switch mm := m.(type) {
			case *ssa.Function:
				add(mm)
			case *ssa.Type:
				for _, t := range []types.Type{mm.Type(), types.NewPointer(mm.Type())} {
					ms := w.prog.MethodSets.MethodSet(t)
					for i := 0; i < ms.Len(); i++ {
						f := w.prog.MethodValue(ms.At(i))
						if f != nil && f.Synthetic == "" {
							add(f)
						}
					}
				}
			}
		}
	}
	return out
}

func (w *World) computeEffects() {
	if effDone {
		return
	}
	fns := w.allRepoFuncs()
	for _, f := range fns {
		effCache[f] = newEffects()
	}
	for changed := true; changed; {
		changed = false
		for _, f := range fns {
			if w.effectsPass(f, nil, effCache[f]) {
				changed = true
			}
		}
	}
	effDone = true
}

func (w *World) effects(fn *ssa.Function) *Effects {
	w.computeEffects()
	if e, ok := effCache[fn]; ok {
		return e
	}
	// synthetic wrappers etc.: analyse on demand (non-recursive)
	e := newEffects()
	effCache[fn] = e
	for i := 0; i < 3; i++ {
		if !w.effectsPass(fn, nil, e) {
			break
		}
	}
	return e
}

func (w *World) loopEffects(fn *ssa.Function, lp *Loop) *Effects {
	w.computeEffects()
	e := newEffects()
	w.effectsPass(fn, lp.blocks, e)
	return e
}

// effectsPass scans fn (restricted to blocks when non-nil); returns whether e grew.
func (w *World) effectsPass(fn *ssa.Function, blocks map[*ssa.BasicBlock]bool, e *Effects) bool {
	ch := false
	note := func(r rootInfo) {
		f := r.field
		if f == "" {
			f = "*"
		}
		switch r.kind {
		case rootParam:
			if addField(e.fields, r.index, f) {
				ch = true
			}
		case rootFree:
			if addField(e.fv, r.index, f) {
				ch = true
			}
		case rootAlloc:
			if e.locals[r.alloc] == nil {
				e.locals[r.alloc] = map[string]bool{}
			}
			if !e.locals[r.alloc][f] {
				e.locals[r.alloc][f] = true
				ch = true
			}
		case rootGlobal:
			if !e.globals {
				e.globals, ch = true, true
			}
		default:
			if !e.opaque {
				e.opaque, ch = true, true
			}
		}
	}
	for _, b := range fn.Blocks {
		if blocks != nil && !blocks[b] {
			continue
		}
		for _, ins := range b.Instrs {
			switch in := ins.(type) {
			case *ssa.Store:
				note(w.rootOf(fn, in.Addr, 0))
			case *ssa.MapUpdate:
				if m, ok := in.Map.Type().Underlying().(*types.Map); ok {
					s := w.mapSort(m)
					if !e.heaps[s] {
						e.heaps[s], ch = true, true
					}
				}
			case ssa.CallInstruction:
				com := in.Common()
				if com.IsInvoke() {
					rs := w.sortOf(com.Value.Type())
					if rs == "Opaque" {
						if !e.events {
							e.events, ch = true, true
						}
					}
					continue
				}
				var callee *ssa.Function
				var binds []ssa.Value
				switch v := com.Value.(type) {
				case *ssa.Function:
					callee = v
				case *ssa.MakeClosure:
					callee = v.Fn.(*ssa.Function)
					binds = v.Bindings
				case *ssa.Builtin:
					continue
				default:
					// call through a function value: parameter, field or phi
					if !e.opaque {
						e.opaque, ch = true, true
					}
					if !e.events {
						e.events, ch = true, true
					}
					continue
				}
				if !w.inRepo(callee) {
					if w.libEffects(callee, com, e) {
						ch = true
					}
					continue
				}
				ce := effCache[callee]
				if ce == nil {
					ce = w.effects(callee)
				}
				if e.merge(ce) {
					ch = true
				}
				if fc := w.contracts[funcKey(callee)]; fc != nil && fc.assumable()+len(fc.Requires) > 0 && !fc.Flags["inline"] {
					// (a callee that is always inlined is never applied by contract and logs no event)
					if !e.events {
						e.events, ch = true, true
					}
				}
				for j, fs := range ce.fields {
					if j >= len(com.Args) {
						continue
					}
					r := w.rootOf(fn, com.Args[j], 0)
					for f := range fs {
						rr := r
						if rr.field == "" {
							rr.field = f
						}
						if f == "*" && r.field == "" {
							rr.field = ""
						}
						note(rr)
					}
				}
				for k, fs := range ce.fv {
					if k >= len(binds) {
						continue
					}
					r := w.rootOf(fn, binds[k], 0)
					for f := range fs {
						rr := r
						if rr.field == "" && f != "*" {
							rr.field = f
						}
						note(rr)
					}
				}
			}
		}
	}
	return ch
}

// libEffects: effects of modelled library functions on repo-visible state.
func (w *World) libEffects(callee *ssa.Function, com *ssa.CallCommon, e *Effects) bool {
	name := callee.String()
	switch {
	case hasPrefix(name, "maps.DeleteFunc"):
		if m, ok := com.Args[0].Type().Underlying().(*types.Map); ok {
			s := w.mapSort(m)
			if !e.heaps[s] {
				e.heaps[s] = true
				return true
			}
		}
	}
	return false
}

func hasPrefix(s, p string) bool { return len(s) >= len(p) && s[:len(p)] == p }

// ---- call-graph cycles: members of a (mutually) recursive group are never inlined

var recursiveFn map[*ssa.Function]bool

func (w *World) calleesOf(f *ssa.Function) []*ssa.Function {
	var out []*ssa.Function
	seen := map[*ssa.Function]bool{}
	add := func(g *ssa.Function) {
		if g != nil && !seen[g] && len(g.Blocks) > 0 && w.inRepo(g) {
			seen[g] = true
			out = append(out, g)
		}
	}
	for _, b := range f.Blocks {
		for _, ins := range b.Instrs {
			var ops [16]*ssa.Value
			for _, op := range ins.Operands(ops[:0]) {
				if op == nil || *op == nil {
					continue
				}
				switch v := (*op).(type) {
				case *ssa.Function:
					add(v)
				case *ssa.MakeClosure:
					if g, ok := v.Fn.(*ssa.Function); ok {
						add(g)
					}
				}
			}
			if ci, ok := ins.(ssa.CallInstruction); ok {
				com := ci.Common()
				if com.IsInvoke() && w.sortOf(com.Value.Type()) == "Dyn" {
					// interface dispatch over AST node types
					for _, t := range w.dynTypes {
						ms := w.prog.MethodSets.MethodSet(t)
						for i := 0; i < ms.Len(); i++ {
							if ms.At(i).Obj().Name() == com.Method.Name() {
								add(w.prog.MethodValue(ms.At(i)))
							}
						}
					}
				}
			}
		}
	}
	return out
}

func (w *World) computeRecursive() {
	if recursiveFn != nil {
		return
	}
	recursiveFn = map[*ssa.Function]bool{}
	index := map[*ssa.Function]int{}
	low := map[*ssa.Function]int{}
	on := map[*ssa.Function]bool{}
	var stack []*ssa.Function
	n := 0
	var strong func(v *ssa.Function)
	strong = func(v *ssa.Function) {
		index[v] = n
		low[v] = n
		n++
		stack = append(stack, v)
		on[v] = true
		for _, u := range w.calleesOf(v) {
			if _, ok := index[u]; !ok {
				strong(u)
				if low[u] < low[v] {
					low[v] = low[u]
				}
			} else if on[u] {
				if index[u] < low[v] {
					low[v] = index[u]
				}
			}
			if u == v {
				recursiveFn[v] = true
			}
		}
		if low[v] == index[v] {
			var comp []*ssa.Function
			for {
				u := stack[len(stack)-1]
				stack = stack[:len(stack)-1]
				on[u] = false
				comp = append(comp, u)
				if u == v {
					break
				}
			}
			if len(comp) > 1 {
				for _, u := range comp {
					recursiveFn[u] = true
				}
			}
		}
	}
	for _, f := range w.allRepoFuncs() {
		if _, ok := index[f]; !ok {
			strong(f)
		}
	}
}

func (w *World) isRecursive(f *ssa.Function) bool {
	w.computeRecursive()
	return recursiveFn[f]
}

// eventKindsIn returns the event kinds that instructions of the given blocks
// (nil = whole function) may log, following inlined callees; ok=false means
// "any kind" (a call through a function value).
func (w *World) eventKindsIn(fn *ssa.Function, blocks map[*ssa.BasicBlock]bool, depth int, out map[string]bool) bool {
	if depth > 6 {
		return false
	}
	for _, b := range fn.Blocks {
		if blocks != nil && !blocks[b] {
			continue
		}
		for _, ins := range b.Instrs {
			ci, ok := ins.(ssa.CallInstruction)
			if !ok {
				continue
			}
			com := ci.Common()
			if com.IsInvoke() {
				if w.sortOf(com.Value.Type()) == "Opaque" {
					out[com.Method.Name()] = true
				}
				continue
			}
			var callee *ssa.Function
			switch v := com.Value.(type) {
			case *ssa.Function:
				callee = v
			case *ssa.MakeClosure:
				callee = v.Fn.(*ssa.Function)
			case *ssa.Builtin:
				continue
			case *ssa.Parameter:
				out[v.Name()] = true
				continue
			default:
				return false
			}
			if !w.inRepo(callee) {
				out[mangle(libName(callee))] = true
				continue
			}
			fc := w.contracts[funcKey(callee)]
			forceInline := (fc != nil && fc.Flags["inline"]) || callee.Parent() != nil
			if (fc != nil && (fc.assumable()+len(fc.Requires) > 0) && !fc.Flags["inline"]) || (w.isRecursive(callee) && !forceInline) || w.isModular(callee) {
				out[callee.Name()] = true
				continue
			}
			if pd := w.pureDef(callee); pd != nil {
				continue
			}
			if !w.eventKindsIn(callee, nil, depth+1, out) {
				return false
			}
		}
	}
	return true
}
