#!/bin/bash
# benigncheck.sh <patch.diff> : apply a behaviour-preserving edit to a scratch worktree of /repo HEAD,
# make sure it builds and the test suite passes, and run every quick check against it.  Any
# VIOLATION is a false alarm of the machinery.  Nothing is applied to /repo itself.
set -u
P="$(readlink -f "$1")"
export GOFLAGS=-mod=mod GOPROXY=off GOSUMDB=off GOTOOLCHAIN=local CGO_ENABLED=0
SV=$(mktemp -d /tmp/bn.XXXXXX)
git -C /repo worktree add -q --detach $SV/wt HEAD || exit 9
trap 'git -C /repo worktree remove --force $SV/wt >/dev/null 2>&1; rm -rf $SV' EXIT
git -C $SV/wt apply "$P" || { echo "RESULT patch-does-not-apply"; exit 0; }
build=ok; (cd $SV/wt && go build ./... >/dev/null 2>&1 && go build -tags verif ./... >/dev/null 2>&1) || build=FAIL
tests=$(cd $SV/wt && go test -vet=off -count=1 ./... 2>&1 | grep -c "^ok")
echo "CONFIRM build=$build tests_ok_pkgs=$tests"
mkdir -p $SV/verif; cp -r /verif/ledger /verif/known_findings.txt $SV/verif/
cd /verif
echo C01 C02 C03 C04 C05 C06 C07 C08 C09 C10 C11 C12 C13 C14 C16 C17 C18 C19 | tr ' ' '\n' | xargs -P 3 -I{} sh -c "bin/govc check -prop {} -tier quick -repo $SV/wt -verif $SV/verif > $SV/chk_{}.txt 2>&1"
alarms=""
for p in C01 C02 C03 C04 C05 C06 C07 C08 C09 C10 C11 C12 C13 C14 C16 C17 C18 C19; do
  if grep -q "^VIOLATION" $SV/chk_$p.txt; then alarms="$alarms $p"; grep "^VIOLATION" $SV/chk_$p.txt | head -3 | sed 's/replay=[^ ]* //' | cut -c1-230; fi
  grep "^WARNING\|CONTRACT-ERROR" $SV/chk_$p.txt | head -2 | cut -c1-200
done
echo "RESULT false_alarms:${alarms:- NONE}"
