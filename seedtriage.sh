#!/bin/bash
# seedtriage.sh <seed dir with patch.diff demo.sh> [all] : confirm a seeded change in a scratch worktree of
# /repo HEAD (tests + demo, clean and patched) and run the quick checks against the patched worktree:
# first the check of the property the change was seeded for; the other seventeen only if that one
# stays green (or when "all" is given).  Nothing is applied to /repo itself. Prints CONFIRM and RESULT lines.
set -u
D="$(cd "$1" && pwd)"
ALL="${2:-}"
OWN=$(basename "$D" | cut -d- -f1)
export GOFLAGS=-mod=mod GOPROXY=off GOSUMDB=off GOTOOLCHAIN=local CGO_ENABLED=0
SV=$(mktemp -d /tmp/sv.XXXXXX)
git -C /repo worktree add -q --detach $SV/wt HEAD || exit 9
trap 'git -C /repo worktree remove --force $SV/wt >/dev/null 2>&1; rm -rf $SV' EXIT
demo() {
  rm -rf $SV/seed; cp -r "$D" $SV/seed
  sed -i "s#/tmp/seed/C[0-9]*/wt#$SV/wt#g; s#/tmp/seed/C[0-9]*/tmp#$SV/dtmp#g" $SV/seed/demo.sh; chmod +x $SV/seed/demo.sh; mkdir -p $SV/dtmp
  (cd $SV/seed && timeout 300 bash ./demo.sh $SV/wt >$SV/demo.out 2>&1); echo $?
}
clean_demo=$(demo)
if ! git -C $SV/wt apply --check "$D/patch.diff" 2>/dev/null; then echo "RESULT patch-does-not-apply"; exit 0; fi
git -C $SV/wt apply "$D/patch.diff"
build=ok; (cd $SV/wt && go build ./... >/dev/null 2>&1) || build=FAIL
tests=$(cd $SV/wt && go test -vet=off -count=1 ./... 2>&1 | grep -c "^ok")
patched_demo=$(demo)
echo "CONFIRM clean_demo_exit=$clean_demo build=$build tests_ok_pkgs=$tests patched_demo_exit=$patched_demo"
mkdir -p $SV/verif; cp -r /verif/ledger /verif/known_findings.txt $SV/verif/
cd /verif
PROPS="C01 C02 C03 C04 C05 C06 C07 C08 C09 C10 C11 C12 C13 C14 C16 C17 C18 C19"
bin/govc check -prop $OWN -tier quick -repo $SV/wt -verif $SV/verif > $SV/chk_$OWN.txt 2>&1
if [ -n "$ALL" ] || ! grep -q "^VIOLATION" $SV/chk_$OWN.txt; then
  echo $PROPS | tr ' ' '\n' | grep -v "^$OWN\$" | xargs -P 3 -I{} sh -c "bin/govc check -prop {} -tier quick -repo $SV/wt -verif $SV/verif > $SV/chk_{}.txt 2>&1"
else
  echo "NOTE own-property check is red; the other checks were not run"
fi
caught=""
for p in $PROPS; do
  [ -f $SV/chk_$p.txt ] || continue
  if grep -q "^VIOLATION" $SV/chk_$p.txt; then caught="$caught $p"; grep "^VIOLATION" $SV/chk_$p.txt | head -2 | sed 's/replay=[^ ]* //' | cut -c1-230; fi
  grep "^ERROR" $SV/chk_$p.txt | head -1
done
echo "RESULT caught_by:${caught:- NONE}"
