package main

// Replay of counterexamples against the real code (go test -overlay).

func (w *World) tryReplay(r *NamedResult, o *Obl) (string, string) {
	if o == nil || o.Model == "" {
		return "no-model", "the solver returned no model (unknown/timeout or quantified goal)"
	}
	return replayModel(w, r, o)
}

func replayModel(w *World, r *NamedResult, o *Obl) (string, string) {
	return "not-replayable", "function-level replay is not implemented for this obligation kind yet"
}
