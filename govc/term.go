package main

// Term layer: a small SMT-LIB term AST with light constant folding.  Folding is
// only an optimisation (smaller queries, concrete loop bounds, fewer infeasible
// paths); every rewrite is an SMT-LIB validity, so soundness does not depend on
// which rewrites fire.

import (
	"fmt"
	"sort"
	"strconv"
	"strings"
)

type TKind int

const (
	KApp TKind = iota
	KVar
	KInt
	KBool
	KStr
	KRaw // pre-rendered SMT text
	KQuant // Op = forall|exists, Bound = bound vars, Args[0] = body
)

type Term struct {
	Kind TKind
	Op   string // KApp: operator; KVar: name; KRaw: text
	Args []*Term
	I    int64
	B    bool
	S    string
	Sort string
	Bound []*Term
	str  string
}

func IntT(i int64) *Term   { return &Term{Kind: KInt, I: i, Sort: "Int"} }
func BoolT(b bool) *Term   { return &Term{Kind: KBool, B: b, Sort: "Bool"} }
func StrT(s string) *Term  { return &Term{Kind: KStr, S: s, Sort: "String"} }
func VarT(n, s string) *Term { return &Term{Kind: KVar, Op: n, Sort: s} }
func RawT(txt, s string) *Term { return &Term{Kind: KRaw, Op: txt, Sort: s} }

var True = BoolT(true)
var False = BoolT(false)

func smtString(s string) string {
	var b strings.Builder
	b.WriteByte('"')
	for i := 0; i < len(s); i++ {
		c := s[i]
		switch {
		case c == '"':
			b.WriteString(`""`)
		case c == '\\':
			b.WriteString(`\u{5c}`)
		case c < 0x20 || c >= 0x7f:
			fmt.Fprintf(&b, `\u{%x}`, c)
		default:
			b.WriteByte(c)
		}
	}
	b.WriteByte('"')
	return b.String()
}

func (t *Term) String() string {
	if t.str != "" {
		return t.str
	}
	var s string
	switch t.Kind {
	case KInt:
		if t.I < 0 {
			s = "(- " + strconv.FormatInt(-t.I, 10) + ")"
		} else {
			s = strconv.FormatInt(t.I, 10)
		}
	case KBool:
		if t.B {
			s = "true"
		} else {
			s = "false"
		}
	case KStr:
		s = smtString(t.S)
	case KVar, KRaw:
		s = t.Op
	case KQuant:
		var b strings.Builder
		b.WriteString("(" + t.Op + " (")
		for _, v := range t.Bound {
			b.WriteString("(" + v.Op + " " + v.Sort + ")")
		}
		b.WriteString(") " + t.Args[0].String() + ")")
		s = b.String()
	case KApp:
		if len(t.Args) == 0 {
			s = t.Op
		} else {
			var b strings.Builder
			b.WriteByte('(')
			b.WriteString(t.Op)
			for _, a := range t.Args {
				b.WriteByte(' ')
				b.WriteString(a.String())
			}
			b.WriteByte(')')
			s = b.String()
		}
	}
	t.str = s
	return s
}

func (t *Term) isConst() bool { return t.Kind == KInt || t.Kind == KBool || t.Kind == KStr }

func sameTerm(a, b *Term) bool {
	if a == b {
		return true
	}
	return a.String() == b.String()
}

// App builds an application without folding.
func App(op, sortName string, args ...*Term) *Term {
	return &Term{Kind: KApp, Op: op, Args: args, Sort: sortName}
}

// ---- datatype registry used by the folder -------------------------------

type ctorInfo struct {
	Name  string
	Sels  []string
	Sorts []string
	DT    string
}

var ctorByName = map[string]*ctorInfo{}
var selToCtor = map[string]*ctorInfo{}
var selIndex = map[string]int{}

func registerCtor(c *ctorInfo) {
	ctorByName[c.Name] = c
	for i, s := range c.Sels {
		selToCtor[s] = c
		selIndex[s] = i
	}
}

// ---- smart constructors ------------------------------------------------

func Not(a *Term) *Term {
	if a.Kind == KBool {
		return BoolT(!a.B)
	}
	if a.Kind == KApp && a.Op == "not" {
		return a.Args[0]
	}
	return App("not", "Bool", a)
}

func And(as ...*Term) *Term {
	var out []*Term
	for _, a := range as {
		if a.Kind == KBool {
			if !a.B {
				return False
			}
			continue
		}
		if a.Kind == KApp && a.Op == "and" {
			out = append(out, a.Args...)
			continue
		}
		out = append(out, a)
	}
	if len(out) == 0 {
		return True
	}
	if len(out) == 1 {
		return out[0]
	}
	return App("and", "Bool", out...)
}

func Or(as ...*Term) *Term {
	var out []*Term
	for _, a := range as {
		if a.Kind == KBool {
			if a.B {
				return True
			}
			continue
		}
		if a.Kind == KApp && a.Op == "or" {
			out = append(out, a.Args...)
			continue
		}
		out = append(out, a)
	}
	if len(out) == 0 {
		return False
	}
	if len(out) == 1 {
		return out[0]
	}
	return App("or", "Bool", out...)
}

func Implies(a, b *Term) *Term {
	if a.Kind == KBool {
		if a.B {
			return b
		}
		return True
	}
	if b.Kind == KBool && b.B {
		return True
	}
	return App("=>", "Bool", a, b)
}

func Ite(c, a, b *Term) *Term {
	if c.Kind == KBool {
		if c.B {
			return a
		}
		return b
	}
	if sameTerm(a, b) {
		return a
	}
	if a.Sort == "Bool" {
		if a.Kind == KBool && b.Kind == KBool {
			if a.B {
				return c
			}
			return Not(c)
		}
	}
	return App("ite", a.Sort, c, a, b)
}

// distinctCtors reports whether a and b are applications of different
// constructors of the same datatype (hence never equal).
func ctorOf(t *Term) *ctorInfo {
	if t.Kind == KApp || t.Kind == KVar {
		if c, ok := ctorByName[t.Op]; ok && (t.Kind == KApp) {
			return c
		}
	}
	return nil
}

func Eq(a, b *Term) *Term {
	if a.isConst() && b.isConst() {
		switch a.Kind {
		case KInt:
			return BoolT(a.I == b.I)
		case KBool:
			return BoolT(a.B == b.B)
		case KStr:
			return BoolT(a.S == b.S)
		}
	}
	if sameTerm(a, b) {
		return True
	}
	if a.Sort == "Bool" {
		if a.Kind == KBool {
			if a.B {
				return b
			}
			return Not(b)
		}
		if b.Kind == KBool {
			if b.B {
				return a
			}
			return Not(a)
		}
	}
	// string(s[i]) == "c" for a one-byte ASCII constant: the UTF-8 encoding of a byte >= 0x80
	// has two bytes, so equality holds iff the character itself is c
	if a.Kind == KApp && a.Op == "byte_str" && b.Kind == KStr && len(b.S) == 1 && b.S[0] < 0x80 {
		return Eq(a.Args[0], b)
	}
	if b.Kind == KApp && b.Op == "byte_str" && a.Kind == KStr && len(a.S) == 1 && a.S[0] < 0x80 {
		return Eq(b.Args[0], a)
	}
	ca, cb := ctorOf(a), ctorOf(b)
	if ca != nil && cb != nil {
		if ca != cb {
			return False
		}
		// same constructor: componentwise (keeps array fields as equalities)
		var parts []*Term
		for i := range a.Args {
			parts = append(parts, Eq(a.Args[i], b.Args[i]))
		}
		return And(parts...)
	}
	// string concat with constant prefix mismatch etc. is left to the solver.
	return App("=", "Bool", a, b)
}

func Neq(a, b *Term) *Term { return Not(Eq(a, b)) }

func Add(a, b *Term) *Term {
	if a.Kind == KInt && b.Kind == KInt {
		return IntT(a.I + b.I)
	}
	if a.Kind == KInt && a.I == 0 {
		return b
	}
	if b.Kind == KInt && b.I == 0 {
		return a
	}
	// (x + c1) + c2
	if b.Kind == KInt && a.Kind == KApp && a.Op == "+" && len(a.Args) == 2 && a.Args[1].Kind == KInt {
		return Add(a.Args[0], IntT(a.Args[1].I+b.I))
	}
	if b.Kind == KInt && b.I < 0 {
		return App("-", "Int", a, IntT(-b.I))
	}
	if b.Kind == KInt && a.Kind == KApp && a.Op == "-" && len(a.Args) == 2 && a.Args[1].Kind == KInt {
		return Add(a.Args[0], IntT(b.I-a.Args[1].I))
	}
	return App("+", "Int", a, b)
}

func Sub(a, b *Term) *Term {
	if a.Kind == KInt && b.Kind == KInt {
		return IntT(a.I - b.I)
	}
	if b.Kind == KInt {
		return Add(a, IntT(-b.I))
	}
	if sameTerm(a, b) {
		return IntT(0)
	}
	return App("-", "Int", a, b)
}

func Mul(a, b *Term) *Term {
	if a.Kind == KInt && b.Kind == KInt {
		return IntT(a.I * b.I)
	}
	return App("*", "Int", a, b)
}

func Cmp(op string, a, b *Term) *Term {
	if a.Kind == KInt && b.Kind == KInt {
		switch op {
		case "<":
			return BoolT(a.I < b.I)
		case "<=":
			return BoolT(a.I <= b.I)
		case ">":
			return BoolT(a.I > b.I)
		case ">=":
			return BoolT(a.I >= b.I)
		}
	}
	if sameTerm(a, b) {
		return BoolT(op == "<=" || op == ">=")
	}
	// (x + c) op d with x shared: x+c1 < x+c2
	return App(op, "Bool", a, b)
}

func Concat(parts ...*Term) *Term {
	var out []*Term
	for _, p := range parts {
		if p.Kind == KApp && p.Op == "str.++" {
			for _, q := range p.Args {
				out = appendStr(out, q)
			}
			continue
		}
		out = appendStr(out, p)
	}
	if len(out) == 0 {
		return StrT("")
	}
	if len(out) == 1 {
		return out[0]
	}
	return App("str.++", "String", out...)
}

func appendStr(out []*Term, p *Term) []*Term {
	if p.Kind == KStr {
		if p.S == "" {
			return out
		}
		if n := len(out); n > 0 && out[n-1].Kind == KStr {
			out[n-1] = StrT(out[n-1].S + p.S)
			return out
		}
	}
	return append(out, p)
}

func StrLen(a *Term) *Term {
	if a.Kind == KStr {
		return IntT(int64(len(a.S)))
	}
	return App("str.len", "Int", a)
}

func Select(arr, idx *Term, elemSort string) *Term {
	// select over store chain with syntactically decidable indices
	cur := arr
	for cur.Kind == KApp && cur.Op == "store" {
		si := cur.Args[1]
		if sameTerm(si, idx) {
			return cur.Args[2]
		}
		if definitelyDistinct(si, idx) {
			cur = cur.Args[0]
			continue
		}
		break
	}
	return App("select", elemSort, cur, idx)
}

// definitelyDistinct: both ints constant and different, or x+c1 vs x+c2.
func definitelyDistinct(a, b *Term) bool {
	if a.Kind == KInt && b.Kind == KInt {
		return a.I != b.I
	}
	if a.Kind == KStr && b.Kind == KStr {
		return a.S != b.S
	}
	ba, ca := splitOffset(a)
	bb, cb := splitOffset(b)
	if ba != nil && bb != nil && sameTerm(ba, bb) {
		return ca != cb
	}
	return false
}

func splitOffset(t *Term) (*Term, int64) {
	if t.Kind == KApp && len(t.Args) == 2 && t.Args[1].Kind == KInt {
		if t.Op == "+" {
			return t.Args[0], t.Args[1].I
		}
		if t.Op == "-" {
			return t.Args[0], -t.Args[1].I
		}
	}
	if t.Kind == KInt {
		return nil, 0
	}
	return t, 0
}

func Store(arr, idx, v *Term) *Term {
	return App("store", arr.Sort, arr, idx, v)
}

// Sel applies a datatype selector, folding over constructor applications.
func Sel(sel string, x *Term) *Term {
	c := selToCtor[sel]
	if c == nil {
		panic("unknown selector " + sel)
	}
	i := selIndex[sel]
	if x.Kind == KApp && x.Op == c.Name {
		return x.Args[i]
	}
	if x.Kind == KApp && x.Op == "ite" {
		// push selector into ite when both branches are constructors
		a, b := x.Args[1], x.Args[2]
		if (a.Kind == KApp && a.Op == c.Name) || (b.Kind == KApp && b.Op == c.Name) {
			return Ite(x.Args[0], Sel(sel, a), Sel(sel, b))
		}
	}
	return App(sel, c.Sorts[i], x)
}

// Is tests a constructor.
func Is(ctor string, x *Term) *Term {
	if c := ctorOf(x); c != nil {
		return BoolT(c.Name == ctor)
	}
	if x.Kind == KApp && x.Op == "ite" {
		a, b := x.Args[1], x.Args[2]
		if ctorOf(a) != nil && ctorOf(b) != nil {
			return Ite(x.Args[0], Is(ctor, a), Is(ctor, b))
		}
	}
	return App("(_ is "+ctor+")", "Bool", x)
}

func Mk(ctor string, args ...*Term) *Term {
	c := ctorByName[ctor]
	if c == nil {
		panic("unknown ctor " + ctor)
	}
	if len(args) != len(c.Sels) {
		panic(fmt.Sprintf("ctor %s arity %d vs %d", ctor, len(args), len(c.Sels)))
	}
	if len(args) == 0 {
		return &Term{Kind: KApp, Op: ctor, Sort: c.DT}
	}
	// eta: mk(sel0(x), sel1(x), ...) => x
	var base *Term
	eta := true
	for i, a := range args {
		if a.Kind == KApp && a.Op == c.Sels[i] && len(a.Args) == 1 {
			if base == nil {
				base = a.Args[0]
			} else if !sameTerm(base, a.Args[0]) {
				eta = false
				break
			}
		} else {
			eta = false
			break
		}
	}
	if eta && base != nil {
		return base
	}
	return App(ctor, c.DT, args...)
}

// collectVars gathers free KVar symbols of a term.
func collectVars(t *Term, into map[string]string) {
	switch t.Kind {
	case KVar:
		into[t.Op] = t.Sort
	case KApp:
		for _, a := range t.Args {
			collectVars(a, into)
		}
	case KQuant:
		inner := map[string]string{}
		collectVars(t.Args[0], inner)
		for _, v := range t.Bound {
			delete(inner, v.Op)
		}
		for k, v := range inner {
			into[k] = v
		}
	}
}

// Quant builds a quantified formula; a body that folded to a constant is returned as is.
func Quant(op string, bound []*Term, body *Term) *Term {
	if body.Kind == KBool {
		return body
	}
	return &Term{Kind: KQuant, Op: op, Bound: bound, Args: []*Term{body}, Sort: "Bool"}
}

func sortedKeys(m map[string]string) []string {
	var ks []string
	for k := range m {
		ks = append(ks, k)
	}
	sort.Strings(ks)
	return ks
}

// walk visits all subterms.
func walk(t *Term, f func(*Term)) {
	f(t)
	if t.Kind == KApp || t.Kind == KQuant {
		for _, a := range t.Args {
			walk(a, f)
		}
	}
}
