#!/usr/bin/env python3
# Regenerates MANIFEST.json from the table below (kept as a script so that the manifest stays valid JSON).
import json, subprocess, sys
claimed = {
 "C01": ("proof", "Go-side proof: every Bash converter method that emits scalar expression / control-flow code has postconditions equating the emitted line(s), the helper allocation and the error behaviour with spec functions written from the Bash manual; loop flags are proved pairwise distinct among open loops. The shell meaning of the templates is trusted (shell_facts), so the claim is 'the emitter is the specified emitter for all inputs', not 'bash prints X'.", "§5 C01"),
 "C02": ("proof", "Go-side proof of the call/frame mechanism of the Bash converter: mangling function, parameter binding lines for every parameter index, return registers in order, argument quoting for every argument, helper copies after the call. Shell meaning of local/positional parameters trusted.", "§5 C02"),
 "C03": ("other", "Go-side proof of the slice/string templates of the Bash converter (argument positions, fresh helpers, helper flags, pinned helper bodies emitted iff flagged). The run-time behaviour of the pinned helper routines (growth, aliasing) is Bash executing them and is not proved.", "§5 C03"),
 "C10": ("proof", "Emitter side of capture-freedom: every compiler-owned name the Bash converter emits is proved to have the reserved shape (_h<n>, _rv<n>, _fv<n>, f<k>_<name>); see level_note for what is not yet covered.", "§5 C10"),
 "C16": ("proof", "Structural protocol of the Bash emitter: each opener/closer emits exactly its keyword line, closers require an open construct, empty bodies get a no-op, helper routines are emitted exactly when their flag is set.", "§5 C16"),
 "C17": ("other", "Go-side proof that write/read/exists emit the specified templates with the arguments in their positions; what the file system then holds is Bash's doing and is trusted. Batch side: write puts the content into the register _fa0 and calls :_fwh with path and append flag in this order, read calls :_frh and copies its register into a fresh helper, exists sets a fresh helper to 1/0 from an if-exist test of the quoted path; the :_fwh / :_frh routine bodies are pinned text, emitted exactly when used.", "§5 C17"),
}
claimed.update({
 "C08": ("proof", "Per emitting site of the Bash converter the emitted line, as an SMT string with symbolic operands, is proved equal to a template in which the operand sits inside one pair of double quotes (assignment, concatenation, comparison, print, call argument, parameter binding, return register, substring, exists/read path), input() reads raw lines, the lexer's char() returns the byte itself. The sites where the property does NOT hold on the unchanged tree are stated from the property, fail with a counter-model, and are listed as known findings with witnesses (no escaping of double-quote specials, echo options, eval-based slice stores and write()).", "§5 C08"),
 "C11": ("other", "Proved (unbounded): char() returns exactly the byte; Tokenize index safety / progress, no blank or comment token is ever appended, the result ends with an EOF token on success, the string scanner gives up only at the end of the input, CRLF normalisation is exactly ReplaceAll; table lemmas over the real operator list and keyword map (evaluated from the package initialiser): no operator spelling is preceded by one of its prefixes (longest match), every entry has the token type the grammar gives its spelling, the reserved words are exactly the keys of the keyword map; token-shape clauses at every newToken call: a block comment is the text up to its FIRST terminator, a line comment stops at the line break, true/false are whole words, an identifier or reserved word is the text at its position, starts with a letter or underscore and is maximal; identifiers are never reserved words and symbol tokens are what they spell; the parser keeps a number token's decimal value and a string token's bytes. The regular expressions enter through reference semantics selected by bounded equivalence testing against Go's regexp engine (an assumption, see level_note). Rows/columns and the string-literal unquoting (strconv.Unquote) are NOT proved.", "§5 C11"),
 "C12": ("other", "Single-run sufficient conditions only: CRLF normalisation is exact, blanks and comments never reach the token list, a declaration consumes values at most once and parses initial values only when something other than a newline or the end of the file follows (call-site assertion). The two-run theorem (same bytes for every re-layout) is argued in DESIGN.md, not machine-checked; newline tolerance of the import group / switch header is a known gap.", "§5 C12"),
 "C14": ("other", "Single-run sufficient conditions: Transpile creates exactly one fresh parser per run before parsing, the transpiler object keeps nothing but the converter, parser.New starts with an empty state, and every loop that ranges over a map (all packages except the CLI) passes a conservative map-order-independence analysis (its body only writes the map entry of the current key). The inference to byte-identical output across runs is argued, not machine-checked.", "§5 C14"),
 "C19": ("proof", "Contracts on tsh.go with os/filepath uninterpreted and logged: parseOptions returns only with non-empty in/out/converters (every other exit is a panic = non-zero status); main performs exactly one Transpile and one os.WriteFile per requested target, the write follows a successful Transpile of the same target, a failed write or transpile panics before anything else is written for that target, the bytes are the library's result and the file name is Base(in) without Ext(in) plus the target's extension; parseOptions: every switch at an odd argument position is a known one, one converter per -t switch in the order given, each from its own factory call (a target named twice gets two fresh converters). Two genuine defects were repaired (singleton converters, ignored write error).", "§5 C19"),
 "C13": ("proof", "Zero-annotation safety sweep over every function of lexer, parser, transpiler, both converters and tsh.go: each index/slice bound, nil map write, nil dereference, single-value type assertion, division and reachable panic is a named obligation; those discharged on the unchanged tree (the ledger, about 1500 of 1550; exact numbers in the evidence file) are what is claimed, using receiver invariants (parser index non-negative and call-graph map present, transpiler has a converter) and a type invariant of the parser context (maps present, inside a scope) that are themselves proved at every call; the remaining ones need AST well-formedness facts (children of nodes are non-nil, identifiers are non-empty) that are not stated and are reported as undecided, never as proved.", "§5 C13"),
 "C06": ("proof", "'accepted implies well-typed' proved by structural induction over the parser: a recursive typing predicate specTyped (Go rules for the shared syntax, README signatures for builtins) is the postcondition of every expression-parsing function (precedence chain, binary/logical/comparison/unary, primary expressions, subscripts, builtins, calls); call arguments and slice literal elements by quantified postconditions (arity and per-position parameter types); operator tables of both converters are proved equal to the same spec tables (error iff not allowed), which is the target-independence half. Statement level: a declaration's values have the types of its variables, an assignment's values the types of the assigned variables, ++/-- only counts integers, every if/else-if/for/switch condition is boolean, a slice element assignment takes the element type, builtin arguments are values.", "§5 C06"),
 "C07": ("proof", "Scope placement checks as postconditions (break/continue/return only inside the right construct via a recursive scope-stack predicate, function definitions only at top level, a second function of the same name rejected). The frame part is a type-wide postcondition on every parser method: the three maps of the caller's context (variables, functions, imports) are left exactly as they were (mapsKept over the map heap), so definitions made inside a block never escape it; addVariables registers every name with last-one-wins.", "§5 C07"),
 "C09": ("proof", "Linking obligations on the parser: alias lookups find nothing for an alias that was never imported and addImport binds exactly the alias; imported top-level statements are never dropped by the duplicate-suppression loop (counting invariant); the merge of an imported file's call graph keeps every imported edge (nested loop invariants over the map heap, for any number of callers and callees); getUsedFuncs returns a set closed under callees-of-callees (event-log induction over the recursive calls) and leaves the call graph untouched. Prefix naming (7-hex-digit content hash) and clean-up of unreachable definitions in cleanProgram are not under contract.", "§5 C09"),
 "C04": ("proof", "Order and multiplicity of evaluation proved on the transpiler: every evaluate* function has ghost event-log postconditions (calls/arg/res/seq) stating that each operand is passed to evaluateExpression exactly once, in source order, with its value used, before the converter call that consumes it; all if/else-if conditions before IfStart; for: init, ForStart, guarded increment, condition, ForCondition, body, ForEnd. Loops are handled with invariants over the log, for any number of operands/branches.", "§5 C04"),
 "C05": ("proof", "Go-side proof for the Batch converter: operator tables (IF comparison words, quoting of string vs numeric operands, doubled %), fresh helpers, routing of lines into function blocks, and the label allocator invariants (no live loop/if/end label equals a label handed out later, live labels pairwise distinct, continue/break/ForEnd target the innermost open loop). cmd.exe's meaning of the templates is trusted.", "§5 C05"),
 "C18": ("other", "Transpiler: a call chain leads to exactly one converter AppCall with the value-used flag and every argument value is used. Both converters' AppCall under contract: command k is written as its name followed by its words in argument order, the commands are joined left to right by ' | ' (nested loop invariants with the Join calls as ghost events, any number of commands and arguments), the statement form emits exactly that line, the Bash value form captures $(pipeline) into a fresh helper and $? into the next one and returns the two references. The clause the property itself demands - every argument is one double-quoted word - is stated, fails on the unchanged tree and is a known finding with a witness (an always-quote repair breaks std/os.tsh and the test suite). What bash then does with the line is trusted.", "§5 C18"),
})
notes = {
 "C08": "Trusted: Bash quoting rules (manual 3.1.2). Batch data paths are not claimed under C08. The six failing clauses are known findings (known_findings.txt), not proved.",
 "C11": "Each lexer pattern is modelled by one of five reference semantics chosen by bounded equivalence with the real regexp engine on a fixed corpus (about 20 000 short strings); patterns that match none stay uninterpreted. The number pattern and the escape pattern are uninterpreted (shape axioms only). Column bookkeeping after block comments is not covered (a seeded change there is missed, see DESIGN.md). Two genuine defects were repaired (greedy block comment, true/false as prefixes).",
 "C12": "Relational property: only the listed single-run facts are machine-checked (including the comment token shapes shared with C11). Three layout defects were repaired without a clause (blank line after switch {, after import ( and between grouped imports).",
 "C14": "Added: the prefix of an imported file is a digest fed with exactly the bytes read from that file (one Write of the ReadFile result before Sum), so it does not depend on where the file lies. The map-order analysis is syntactic (go/ssa), not SMT; process-level nondeterminism other than map iteration (none exists in the code: no goroutines, no time, no random) is excluded by the outside-subset check.",
 "C19": "Trusted: os.Stat/WriteFile, filepath.Base/Ext/Join uninterpreted with the assumed fact that Ext(p) is a suffix of Base(p); a panic is the non-zero exit (Go runtime fact). 'never modifies its input' (output path differs from input path) is not proved.",
 "C13": "Termination is not proved (no decreases clauses); the one known non-termination, import cycles, was repaired and the repair is under a call-site clause (no file is parsed again while it is being parsed). Mathematical integers (A1); stack depth and memory exhaustion not modelled. Undecided obligations are listed in the evidence.",
 "C06": "Not under contract: the types of returned values below the top level of a function body (a genuine defect, F-06b: return \"x\" nested in an int function is accepted; a repair was withdrawn because the test suite returns nil for a slice in a nested return), compound assignments; ordering comparison of strings, the argument type of panic and print are unspecified and not demanded. Library models: strconv.Atoi/ParseBool uninterpreted.",
 "C07": "Trusted: maps.Clone / slices.Clone models (fresh reference, same content). Shadowing rules inside one block are only covered as far as the listed clauses go.",
 "C09": "Trusted: os/filepath/sha256 uninterpreted; acyclicity of the call graph (recursion through getUsedFuncs is handled modularly, termination is not proved).",
 "C04": "Trusted: a helper reference (${_hN}) can be expanded any number of times without effect; the parser's AST keeps one node per source operand (parser-side clause pending); govc; solvers.",
 "C05": "Trusted: cmd.exe semantics (parse-time %, run-time !, label search, IF numeric vs string, call/exit /B, set /A). The ten helper routines of ProgramEnd are pinned text (compared with a reviewed constant, each handed to addHelper exactly when needed, none twice); their meaning under cmd.exe is not proved.",
 "C18": "Trusted: Bash/cmd word splitting, pipes and $? (shell facts). The order in which the transpiler walks the chain (a linked list of parser.AppCall) is not under contract; the Batch capture helper body is not either. One known finding (bare arguments).",
 "C01": "Trusted: Bash semantics of $(( )), [ ], $(if ..), while/break/continue, echo, exit (spec/shell_facts.md); govc itself; SMT solvers; library models (Sprintf, Join, Itoa). Parser precedence chain and transpiler call order are covered by C06/C04 checks as they come online.",
 "C02": "Trusted: Bash semantics of functions, local, positional parameters, return; assumption A2 (FuncCall writes the quoted arguments through the caller's slice).",
 "C03": "Trusted: Bash arrays, eval-based indirect expansion, ${v:o:l}, ${#v}; pinned helper bodies are compared with a reviewed constant, their meaning is not proved.",
 "C10": "Emitter side proved for both converters (helper, register, label, flag and mangled names have the reserved shape). The user side (no check keeps user identifiers out of the reserved shapes) is a known finding with a witness.",
 "C16": "bash -n is not run by the deciding step; that balanced protocol + non-empty bodies implies syntactic validity is a shell fact. Batch: label allocator uniqueness, every helper routine present exactly when its flag (or a routine depending on it) is set, helper wrapper shape (begin comment, skip jump, label, exit /B, end label), :end label and exit line.",
 "C17": "Trusted: > / >> redirection, echo's newline, $(cat f), [ -e f ]. Quoting of path/content inside the eval string is C08's business (known finding).",
}
na = [
 ("C15", "std/strings.tsh is TypeShell source executed by the shell: no contract on a Go function of /repo expresses agreement with Go's strings package; translating the .tsh text would verify a hand-made model (different family), running it is differential testing (different family)."),
]
pending = {
 "C04": "pending in this build: trace contracts on the transpiler are being added",
 "C05": "pending in this build: Batch converter contracts are being added",
 "C06": "pending in this build: typing postconditions on the parser are being added",
 "C07": "pending in this build: scoping contracts on the parser are being added",
 "C08": "pending in this build: quoting predicates per emitting site are being added",
 "C09": "pending in this build: linking contracts on the parser are being added",
 "C11": "pending in this build",
 "C12": "pending in this build",
 "C13": "pending in this build: the safety sweep exists, its ledger is being triaged",
 "C14": "pending in this build",
 "C18": "pending in this build",
 "C19": "pending in this build",
}
import os
for k in list(pending):
    if k in claimed: del pending[k]
hooks = subprocess.run(["git","-C","/repo","log","--format=%H %s"],capture_output=True,text=True).stdout.strip().split("\n")
hook_commits = [l.split()[0] for l in hooks if " verif hook" in l]
m = {
 "version": 1,
 "setup_cmd": "./setup.sh",
 "hooks": {
  "guard": "verif",
  "enable": "go build -tags verif ./... (contract files zz_contracts_verif.go are //go:build verif; govc loads /repo with -tags=verif)",
  "baseline_off_cmd": "cd /repo && go test -mod=mod -json -vet=off -count=1 -timeout 25m ./...",
  "source_commits": hook_commits,
  "add_only": True,
 },
 "engines": [{"name": "govc", "path": "govc/", "serves_properties": sorted(claimed), "kind_free_text": "contract-based deductive verifier for Go built here: go/ssa symbolic execution, loop invariants, callee contracts, pure-function summaries as SMT definitions, obligations discharged by z3 5.1 / z3 4.8.12 / cvc5 1.0.3"}],
 "checks": [],
 "not_applicable": [{"property_id": p, "reason": r} for p, r in na] + [{"property_id": p, "reason": r} for p, r in sorted(pending.items())],
 "notes": "Contracts live in /repo/<pkg>/zz_contracts_verif.go (build tag verif). Ledgers of obligations proved on the unchanged tree: /verif/ledger. Known findings: /verif/known_findings.txt.",
}
for p in sorted(claimed):
    lvl, text, ref = claimed[p]
    m["checks"].append({
     "property_id": p,
     "quick_cmd": "./check %s --tier quick" % p,
     "thorough_cmd": "./check %s --tier thorough" % p,
     "evidence_file": "/verif/evidence/%s.json" % p,
     "replay_cmd_template": "./check --replay {path}",
     "engine": "govc",
     "level_claimed": {"category": lvl, "text": text, "design_ref": ref},
     "level_note": notes[p],
     "technique": "contract-based deductive verification: requires/ensures/loop invariants on the real Go functions (go/ssa), VCs discharged by z3/cvc5",
    })
json.dump(m, open("/verif/MANIFEST.json","w"), indent=1)
print("manifest written:", len(m["checks"]), "checks")
