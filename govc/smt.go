package main

// Query rendering and the solver race.

import (
	"go/types"
	"sync/atomic"
	"bytes"
	"context"
	"crypto/sha1"
	"fmt"
	"os"
	"os/exec"
	"path/filepath"
	"sort"
	"strings"
	"sync"
	"time"
)

var smtBuiltins = map[string]bool{
	"not": true, "and": true, "or": true, "=>": true, "ite": true, "=": true, "distinct": true,
	"+": true, "-": true, "*": true, "div": true, "mod": true, "<": true, "<=": true, ">": true, ">=": true,
	"str.++": true, "str.len": true, "str.at": true, "str.substr": true, "str.prefixof": true, "str.suffixof": true,
	"str.contains": true, "str.indexof": true, "str.replace": true, "str.replace_all": true, "str.to_code": true,
	"str.from_code": true, "str.<": true, "str.<=": true, "str.in_re": true, "str.to_int": true, "str.from_int": true,
	"select": true, "store": true, "re.+": true, "re.range": true, "re.*": true, "re.++": true, "re.union": true, "str.to_re": true,
	"byte_str": true, "re.opt": true, "re.allchar": true, "re.all": true, "re.none": true, "re.comp": true, "str.is_digit": true,
}

func (w *World) renderQuery(o *Obl, forCVC5 bool) string {
	var b strings.Builder
	if forCVC5 {
		b.WriteString("(set-option :produce-models true)\n")
	}
	b.WriteString("(set-logic ALL)\n")
	b.WriteString(w.declText())
	terms := append([]*Term{}, o.Assumes...)
	terms = append(terms, o.Goal)
	defs := w.defsFor(terms)
	// collect everything mentioned, including inside definitions
	all := append([]*Term{}, terms...)
	for _, pd := range pureByName {
		if pd.state == 2 && strings.Contains(defs, pd.name+" ") {
			if pd.body != nil {
				all = append(all, pd.body)
			}
			if pd.okBody != nil {
				all = append(all, pd.okBody)
			}
		}
	}
	// uninterpreted functions
	ufs := map[string]string{}
	usesInv := false
	itoaArgs := map[string]*Term{}
	runesArgs := map[string]*Term{}
	rangeTerms := map[string]*Term{}
	for _, t := range all {
		walk(t, func(s *Term) {
			if s.Kind != KApp || len(s.Args) == 0 {
				return
			}
			op := s.Op
			if smtBuiltins[op] || strings.HasPrefix(op, "(") {
				return
			}
			if _, ok := ctorByName[op]; ok {
				return
			}
			if _, ok := selToCtor[op]; ok {
				return
			}
			if _, ok := pureByName[op]; ok {
				return
			}
			var as []string
			for _, a := range s.Args {
				as = append(as, a.Sort)
			}
			ufs[op] = "(declare-fun " + op + " (" + strings.Join(as, " ") + ") " + s.Sort + ")"
			if op == "itoa" {
				itoaArgs[s.Args[0].String()] = s.Args[0]
			}
			if op == "runes_of" {
				runesArgs[s.Args[0].String()] = s.Args[0]
			}
			if (op == "str_count" || op == "str_lastidx") && len(s.Args) == 4 {
				rangeTerms[s.String()] = s
			}
			if op == "itoa_inv" {
				delete(ufs, op)
				usesInv = true
			}
		})
	}
	ufNames := make([]string, 0, len(ufs))
	for k := range ufs {
		ufNames = append(ufNames, k)
	}
	sort.Strings(ufNames)
	for _, k := range ufNames {
		b.WriteString(ufs[k] + "\n")
	}
	// free variables (declare before definitions: definitions may mention global constants)
	vars := map[string]string{}
	for _, t := range all {
		collectVars(t, vars)
	}
	for _, pd := range pureByName {
		for _, p := range pd.params {
			delete(vars, p.Op)
		}
	}
	for _, v := range sortedKeys(vars) {
		fmt.Fprintf(&b, "(declare-const %s %s)\n", v, vars[v])
	}
	usesByteStr := false
	for _, t := range all {
		walk(t, func(s *Term) {
			if s.Kind == KApp && s.Op == "byte_str" {
				usesByteStr = true
			}
		})
	}
	if usesByteStr {
		b.WriteString("(define-fun byte_str ((x String)) String (ite (< (str.to_code x) 128) x (str.++ (str.from_code (+ 192 (div (str.to_code x) 64))) (str.from_code (+ 128 (mod (str.to_code x) 64))))))\n")
	}
	b.WriteString(defs)
	if len(runesArgs) > 0 {
		// []rune(s): as many runes as characters at most, none exactly for the empty string, and the
		// first rune of a string that starts with an ASCII byte is that byte (closed instances only)
		keys := make([]string, 0, len(runesArgs))
		for k := range runesArgs {
			keys = append(keys, k)
		}
		sort.Strings(keys)
		needRQ := false
		defer func() { _ = needRQ }()
		for _, k := range keys {
			fv := map[string]string{}
			collectVars(runesArgs[k], fv)
			closed := true
			for v := range fv {
				if _, ok := vars[v]; !ok {
					closed = false
				}
			}
			if !closed {
				needRQ = true
				continue
			}
			r := "(runes_of " + k + ")"
			fmt.Fprintf(&b, "(assert (and (>= (Sl_Int_len %s) 0) (<= (Sl_Int_len %s) (str.len %s)) (= (= (Sl_Int_len %s) 0) (= (str.len %s) 0)) (not (Sl_Int_nil %s))))\n", r, r, k, r, k, r)
			fmt.Fprintf(&b, "(assert (=> (and (>= (str.len %s) 1) (< (str.to_code (str.at %s 0)) 128)) (= (select (Sl_Int_arr %s) 0) (str.to_code (str.at %s 0)))))\n", k, k, r, k)
		}
		if needRQ && o.Kind != "vacuity" {
			// applied to a bound variable / definition parameter: the same facts, pattern-guarded
			b.WriteString("(assert (forall ((s!r String)) (! (and (>= (Sl_Int_len (runes_of s!r)) 0) (<= (Sl_Int_len (runes_of s!r)) (str.len s!r)) (= (= (Sl_Int_len (runes_of s!r)) 0) (= (str.len s!r) 0)) (not (Sl_Int_nil (runes_of s!r))) (=> (and (>= (str.len s!r) 1) (< (str.to_code (str.at s!r 0)) 128)) (= (select (Sl_Int_arr (runes_of s!r)) 0) (str.to_code (str.at s!r 0))))) :pattern ((runes_of s!r)))))\n")
		}
	}
	if o.Kind != "vacuity" {
		// (a vacuity guard asks for a model; the instantiated library facts only make that harder to find)
		b.WriteString(strRangeAxioms(rangeTerms, vars))
	}
	if len(itoaArgs) == 0 && usesInv {
		b.WriteString("(declare-fun itoa_inv (String) Int)\n")
	}
	if len(itoaArgs) > 0 {
		b.WriteString("(declare-fun itoa_inv (String) Int)\n")
		keys := make([]string, 0, len(itoaArgs))
		for k := range itoaArgs {
			keys = append(keys, k)
		}
		sort.Strings(keys)
		needQ := false
		for _, k := range keys {
			fv := map[string]string{}
			collectVars(itoaArgs[k], fv)
			for v := range fv {
				if _, ok := vars[v]; !ok {
					needQ = true
				}
			}
		}
		if needQ && o.Kind != "vacuity" {
			// (a vacuity guard asks for a model: the quantified library axioms are left out there --
			// they cannot make the user's assumptions contradictory unless these talk about itoa itself)
			// itoa applied to bound variables / definition parameters: pattern-guarded axioms
			b.WriteString("(assert (forall ((k!i Int)) (! (= (itoa_inv (itoa k!i)) k!i) :pattern ((itoa k!i)))))\n")
			b.WriteString("(assert (forall ((k!i Int)) (! (=> (>= k!i 0) (str.in_re (itoa k!i) (re.+ (re.range \"0\" \"9\")))) :pattern ((itoa k!i)))))\n")
		}
		for _, k := range keys {
			// only closed instances (no bound variables, no definition parameters)
			fv := map[string]string{}
			collectVars(itoaArgs[k], fv)
			closed := true
			for v := range fv {
				if _, ok := vars[v]; !ok {
					closed = false
				}
			}
			if !closed || strings.Contains(k, "!b") || strings.Contains(k, "!q") || strings.Contains(k, "!p") || strings.Contains(k, "!c") {
				continue
			}
			fmt.Fprintf(&b, "(assert (= (itoa_inv (itoa %s)) %s))\n", k, k)
			fmt.Fprintf(&b, "(assert (=> (>= %s 0) (str.in_re (itoa %s) (re.+ (re.range \"0\" \"9\")))))\n", k, k)
			fmt.Fprintf(&b, "(assert (=> (< %s 0) (str.prefixof \"-\" (itoa %s))))\n", k, k)
		}
	}
	if o.Kind == "safety" || o.Kind == "requires" || o.Kind == "node-invariant" {
		// node invariants: every AST interface value was boxed somewhere in the loaded packages, where its
		// node invariant is an obligation of its own; here it is available for any value the query takes apart
		var probe strings.Builder
		for _, a := range o.Assumes {
			probe.WriteString(a.String())
		}
		probe.WriteString(o.Goal.String())
		probe.WriteString(defs)
		_ = probe
		axBySel := map[string]nodeAxiom{}
		for _, ax := range w.nodeAxiomList() {
			axBySel[ax.sel] = ax
		}
		seenInst := map[string]bool{}
		var insts []string
		var scan func(t *Term)
		scan = func(t *Term) {
			walk(t, func(sub *Term) {
				if sub.Kind != KApp || len(sub.Args) != 1 {
					return
				}
				if strings.HasPrefix(sub.Op, "D_") && sub.Args[0].Sort == "Dyn" {
					// a getter applied to an interface value (block.Body(), operation.Left()): the value is
					// taken apart inside the getter's definition -- instantiate for every node type
					arg := sub.Args[0]
					fv := map[string]string{}
					collectVars(arg, fv)
					for v := range fv {
						if _, free := vars[v]; !free {
							return
						}
					}
					for _, ax := range w.nodeAxiomList() {
						pl := App(ax.sel, ax.psort, arg)
						key := pl.String()
						if seenInst[key] {
							continue
						}
						seenInst[key] = true
						inst := Implies(Is(ax.ctor, arg), subst(ax.body, map[string]*Term{"node!x": pl}))
						insts = append(insts, "(assert "+inst.String()+")\n")
					}
					return
				}
				ax, ok := axBySel[sub.Op]
				if !ok {
					return
				}
				arg := sub.Args[0]
				fv := map[string]string{}
				collectVars(arg, fv)
				for v := range fv {
					if _, free := vars[v]; !free {
						return // mentions a bound variable or a definition parameter: no closed instance
					}
				}
				key := sub.String()
				if seenInst[key] {
					return
				}
				seenInst[key] = true
				inst := Implies(Is(ax.ctor, arg), subst(ax.body, map[string]*Term{"node!x": sub}))
				insts = append(insts, "(assert "+inst.String()+")\n")
				// the instance mentions the children: they may be taken apart in the query as well,
				// but only terms that already occur are instantiated (no new terms are invented)
			})
		}
		for _, a := range o.Assumes {
			scan(a)
		}
		scan(o.Goal)
		sort.Strings(insts)
		for _, i := range insts {
			b.WriteString(i)
		}
	}
	for _, a := range o.Assumes {
		b.WriteString("(assert " + a.String() + ")\n")
	}
	b.WriteString("(assert (not " + o.Goal.String() + "))\n")
	b.WriteString("(check-sat)\n")
	return b.String()
}

// strRangeAxioms: the assumed facts about strings.Count / strings.LastIndex (lib.go, strRangeFn),
// instantiated for the closed terms of the query: sign and containment per term, additivity /
// "the later range wins" for every two ranges of the same string that start at the same index.
func strRangeAxioms(terms map[string]*Term, vars map[string]string) string {
	if len(terms) == 0 {
		return ""
	}
	var b strings.Builder
	keys := make([]string, 0, len(terms))
	for k, t := range terms {
		fv := map[string]string{}
		collectVars(t, fv)
		closed := true
		for v := range fv {
			if _, ok := vars[v]; !ok {
				closed = false
			}
		}
		if closed {
			keys = append(keys, k)
		}
	}
	sort.Strings(keys)
	done := map[string]bool{}
	perTerm := func(t *Term) {
		k := t.String()
		if done[k] {
			return
		}
		done[k] = true
		s, sep, lo, hi := t.Args[0].String(), t.Args[1].String(), t.Args[2].String(), t.Args[3].String()
		inR := fmt.Sprintf("(and (<= 0 %s) (<= %s %s) (<= %s (str.len %s)))", lo, lo, hi, hi, s)
		sub := fmt.Sprintf("(str.substr %s %s (- %s %s))", s, lo, hi, lo)
		if t.Op == "str_count" {
			fmt.Fprintf(&b, "(assert (>= %s 0))\n", k)
			fmt.Fprintf(&b, "(assert (=> (and %s (> (str.len %s) 0)) (= (> %s 0) (str.contains %s %s))))\n", inR, sep, k, sub, sep)
		} else {
			fmt.Fprintf(&b, "(assert (>= %s (- 1)))\n", k)
			fmt.Fprintf(&b, "(assert (=> %s (= (>= %s 0) (str.contains %s %s))))\n", inR, k, sub, sep)
			fmt.Fprintf(&b, "(assert (=> (and %s (>= %s 0)) (and (<= (+ %s (str.len %s)) (- %s %s)) (= (str.substr %s (+ %s %s) (str.len %s)) %s))))\n", inR, k, k, sep, hi, lo, s, lo, k, sep, sep)
		}
	}
	for _, k := range keys {
		perTerm(terms[k])
	}
	for _, k1 := range keys {
		for _, k2 := range keys {
			t1, t2 := terms[k1], terms[k2]
			if k1 == k2 || t1.Op != t2.Op || !sameTerm(t1.Args[0], t2.Args[0]) || !sameTerm(t1.Args[1], t2.Args[1]) || !sameTerm(t1.Args[2], t2.Args[2]) || sameTerm(t1.Args[3], t2.Args[3]) {
				continue
			}
			if t1.Args[1].Kind != KStr || len(t1.Args[1].S) != 1 {
				continue // a longer separator can straddle the cut
			}
			// t1 = [lo,mid), t2 = [lo,hi): if mid <= hi the rest [mid,hi) completes the picture
			s, sep, lo, mid, hi := t1.Args[0], t1.Args[1], t1.Args[2], t1.Args[3], t2.Args[3]
			rest := App(t1.Op, "Int", s, sep, mid, hi)
			perTerm(rest)
			guard := fmt.Sprintf("(and (<= 0 %s) (<= %s %s) (<= %s %s) (<= %s (str.len %s)))", lo, lo, mid, mid, hi, hi, s)
			if t1.Op == "str_count" {
				fmt.Fprintf(&b, "(assert (=> %s (= %s (+ %s %s))))\n", guard, k2, k1, rest)
			} else {
				fmt.Fprintf(&b, "(assert (=> %s (= %s (ite (>= %s 0) (+ (- %s %s) %s) %s))))\n", guard, k2, rest, mid, lo, rest, k1)
			}
		}
	}
	return b.String()
}

type nodeAxiom struct {
	ctor, sel, text string
	body  *Term  // the invariant over the placeholder node!x (the payload)
	psort string // sort of the payload
}

// nodeAxiomList: one quantified fact per AST node type with a node invariant: whatever interface
// value is built with that type's constructor carries a payload that satisfies the invariant.
func (w *World) nodeAxiomList() []nodeAxiom {
	if w.nodeAxiomsDone {
		return w.nodeAxioms
	}
	w.nodeAxiomsDone = true
	keys := make([]string, 0, len(w.nodeInv))
	for k := range w.nodeInv {
		keys = append(keys, k)
	}
	sort.Strings(keys)
	for _, k := range keys {
		cn, ok := w.dynCtor[k]
		if !ok {
			continue
		}
		ci := ctorByName[cn]
		if ci == nil || len(ci.Sels) == 0 {
			continue
		}
		sel := ci.Sels[0]
		pkg := k[:strings.Index(k, ".")]
		var named *types.Named
		for _, n := range w.dynTypes {
			if typeKey(n) == k {
				named = n
			}
		}
		if named == nil {
			continue
		}
		psort := w.sortOf(named)
		d := VarT("d!n", "Dyn")
		payload := App(sel, psort, d)
		var parts []*Term
		for _, c := range w.nodeInv[k] {
			x := newExec(w, "nodeinv."+k)
			st := newState()
			env := x.newSpecEnv(st, st, w.anyFuncOfPkg(pkg))
			env.vars[c.Param] = VarT("node!x", psort)
			g, err := env.evalBool(c.Expr)
			if err != nil {
				fmt.Printf("CONTRACT-ERROR %s:%d node-invariant %s: %v\n", shortFile(c.File), c.Line, c.Label, err)
				continue
			}
			parts = append(parts, subst(g, map[string]*Term{"node!x": payload}))
		}
		if len(parts) == 0 {
			continue
		}
		body := And(parts...)
		txt := body.String()
		if strings.Contains(txt, "(F_") || strings.Contains(txt, "(D_") {
			fmt.Printf("NOTE node invariant of %s mentions a defined function and is not used as an axiom\n", k)
			continue
		}
		// NOT a quantified axiom: Dyn is a free datatype, so "every value built with this constructor has a
		// payload that satisfies the invariant" is false in the theory (cvc5 refutes it on its own, which
		// would make every query vacuous).  The fact is about the values that occur in an execution: it is
		// instantiated for the closed terms of a query that are taken apart with the payload selector.
		var rawParts []*Term
		for _, c := range w.nodeInv[k] {
			x := newExec(w, "nodeinv."+k)
			st := newState()
			env := x.newSpecEnv(st, st, w.anyFuncOfPkg(pkg))
			env.vars[c.Param] = VarT("node!x", psort)
			if g, err := env.evalBool(c.Expr); err == nil {
				rawParts = append(rawParts, g)
			}
		}
		w.nodeAxioms = append(w.nodeAxioms, nodeAxiom{ctor: cn, sel: sel, body: And(rawParts...), psort: psort})
	}
	return w.nodeAxioms
}

type solverRes struct {
	status string
	solver string
	secs   float64
	model  string
	raw    string
}

type solverSpec struct {
	name string
	bin  string
	args func(file string, tmo int) []string
	cvc5 bool
}

var solvers = []solverSpec{
	{name: "z3-new", bin: "z3-new", args: func(f string, t int) []string { return []string{fmt.Sprintf("-T:%d", t), f} }},
	{name: "z3", bin: "z3", args: func(f string, t int) []string { return []string{fmt.Sprintf("-T:%d", t), f} }},
	{name: "cvc5", bin: "cvc5", cvc5: true, args: func(f string, t int) []string {
		return []string{"--strings-exp", "--dt-nested-rec", fmt.Sprintf("--tlimit=%d", t*1000), f}
	}},
}

// portfolio: further z3-new runs with other random seeds. Quantified goals are sensitive to the
// solver's instantiation order; a different seed often decides in a fraction of a second what the
// default seed does not decide at all.
var portfolio = []solverSpec{
	{name: "z3-new/seed3", bin: "z3-new", args: func(f string, t int) []string {
		return []string{fmt.Sprintf("-T:%d", t), "smt.random_seed=3", "sat.random_seed=3", f}
	}},
	{name: "z3-new/seed11", bin: "z3-new", args: func(f string, t int) []string {
		return []string{fmt.Sprintf("-T:%d", t), "smt.random_seed=11", "sat.random_seed=11", f}
	}},
}

func runSolver(sp solverSpec, file string, tmo int, ctx context.Context) solverRes {
	start := time.Now()
	c, cancel := context.WithTimeout(ctx, time.Duration(tmo+2)*time.Second)
	defer cancel()
	cmd := exec.CommandContext(c, sp.bin, sp.args(file, tmo)...)
	var out bytes.Buffer
	cmd.Stdout = &out
	cmd.Stderr = &out
	_ = cmd.Run()
	secs := time.Since(start).Seconds()
	raw := out.String()
	first := strings.TrimSpace(strings.SplitN(raw, "\n", 2)[0])
	st := "unknown"
	if strings.Contains(raw, "(error") && !strings.Contains(raw, "model is not available") {
		first = "error"
	}
	switch first {
	case "error":
		st = "error"
	case "unsat":
		st = "unsat"
	case "sat":
		st = "sat"
	case "timeout":
		st = "timeout"
	default:
		if strings.Contains(raw, "timeout") || c.Err() != nil {
			st = "timeout"
		} else if strings.HasPrefix(first, "(error") {
			st = "error"
		}
	}
	return solverRes{status: st, solver: sp.name, secs: secs, raw: raw}
}

type SolveOpts struct {
	Timeout  int
	Dir      string
	Parallel int
	CrossCheck bool
	StopAfter  int // stop attempting further obligations after this many have failed (0: never)
}

var solveCache sync.Map

// solveAll discharges the obligations in parallel.
func (w *World) solveAll(obls []*Obl, opt SolveOpts) {
	type job struct{ o *Obl }
	jobs := make(chan *Obl)
	var wg sync.WaitGroup
	// render sequentially (terms are not goroutine safe: String() memoises)
	texts := make(map[*Obl][2]string, len(obls))
	for _, o := range obls {
		if o.Status != "" {
			continue // decided by an analysis, not by a solver
		}
		if o.Goal.Kind == KBool && o.Goal.B {
			o.Status = "unsat"
			o.Solver = "trivial"
			continue
		}
		t1 := w.renderQuery(o, false)
		o.Size = len(t1)
		texts[o] = [2]string{t1, ""}
	}
	var failures int32
	for i := 0; i < opt.Parallel; i++ {
		wg.Add(1)
		go func() {
			defer wg.Done()
			for o := range jobs {
				if opt.StopAfter > 0 && atomic.LoadInt32(&failures) >= int32(opt.StopAfter) {
					// the verdict is settled: the remaining obligations are not attempted
					o.Status, o.Solver = "not-attempted", "none"
					continue
				}
				tx := texts[o]
				w.solveOne(o, tx[0], opt)
				good := "unsat"
				if o.Kind == "vacuity" {
					good = "sat" // a vacuity guard asks for a model
				}
				if o.Status != good {
					atomic.AddInt32(&failures, 1)
				}
			}
		}()
	}
	for _, o := range obls {
		if o.Status == "" {
			jobs <- o
		}
	}
	close(jobs)
	wg.Wait()
	// a vacuity guard asks for satisfiability: `sat` is the good answer, `unsat` means the
	// assumptions contradict each other (or no return can be reached)
	for _, o := range obls {
		if o.Kind != "vacuity" || o.vacDone {
			continue
		}
		o.vacDone = true
		switch o.Status {
		case "sat":
			o.Status, o.Model = "unsat", ""
		case "unsat":
			o.Status = "sat"
			o.Model = "VACUOUS: the assumptions are contradictory / no return is reachable"
		}
	}
}

func (w *World) solveOne(o *Obl, text string, opt SolveOpts) {
	sum := sha1.Sum([]byte(text))
	key := fmt.Sprintf("%x", sum[:8])
	if v, ok := solveCache.Load(key); ok {
		r := v.(solverRes)
		o.Status, o.Solver, o.Time, o.Model = r.status, r.solver+"(cached)", 0, r.model
		return
	}
	file := filepath.Join(opt.Dir, key+".smt2")
	os.WriteFile(file, []byte(text), 0644)
	cfile := filepath.Join(opt.Dir, key+".cvc5.smt2")
	o.Text = file
	res := w.race(file, cfile, text, opt)
	if res.status == "sat" {
		// fetch a model with the solver that answered
		res.model = w.getModel(res.solver, file, cfile, text, opt)
	}
	solveCache.Store(key, res)
	o.Status, o.Solver, o.Time, o.Model = res.status, res.solver, res.secs, res.model
}

func (w *World) race(file, cfile, text string, opt SolveOpts) solverRes {
	// stage 1: z3-new alone, short (most obligations take milliseconds; what needs longer goes to the race at once)
	quick := 1
	if opt.Timeout < quick {
		quick = opt.Timeout
	}
	ctx := context.Background()
	r := runSolver(solvers[0], file, quick, ctx)
	if r.status == "unsat" || r.status == "sat" {
		if opt.CrossCheck {
			return w.cross(r, file, cfile, text, opt)
		}
		return r
	}
	// stage 2: all three in parallel with the full limit
	os.WriteFile(cfile, []byte("(set-option :produce-models true)\n"+text), 0644)
	c, cancel := context.WithCancel(ctx)
	defer cancel()
	all := append(append([]solverSpec{}, solvers...), portfolio...)
	ch := make(chan solverRes, len(all))
	for _, sp := range all {
		sp := sp
		f := file
		if sp.cvc5 {
			f = cfile
		}
		go func() { ch <- runSolver(sp, f, opt.Timeout, c) }()
	}
	best := solverRes{status: "unknown", solver: "none"}
	total := 0.0
	for i := 0; i < len(all); i++ {
		rr := <-ch
		total += rr.secs
		if rr.status == "unsat" || rr.status == "sat" {
			cancel()
			return rr
		}
		if rr.status == "timeout" {
			best.status = "timeout"
		}
		best.raw += rr.solver + ": " + strings.SplitN(rr.raw, "\n", 2)[0] + "; "
	}
	best.secs = total
	return best
}

func (w *World) cross(r solverRes, file, cfile, text string, opt SolveOpts) solverRes {
	os.WriteFile(cfile, []byte("(set-option :produce-models true)\n"+text), 0644)
	ctx := context.Background()
	for _, sp := range solvers[1:] {
		f := file
		if sp.cvc5 {
			f = cfile
		}
		rr := runSolver(sp, f, opt.Timeout, ctx)
		if (rr.status == "sat" || rr.status == "unsat") && rr.status != r.status {
			return solverRes{status: "unknown", solver: "DISAGREE:" + r.solver + "=" + r.status + "," + rr.solver + "=" + rr.status, secs: r.secs + rr.secs}
		}
	}
	return r
}

func (w *World) getModel(solver, file, cfile, text string, opt SolveOpts) string {
	mfile := file + ".model.smt2"
	os.WriteFile(mfile, []byte("(set-option :produce-models true)\n"+text+"(get-model)\n"), 0644)
	defer os.Remove(mfile)
	for _, sp := range append(append([]solverSpec{}, solvers...), portfolio...) {
		if sp.name == solver {
			r := runSolver(sp, mfile, opt.Timeout, context.Background())
			if len(r.raw) > 20000 {
				return r.raw[:20000] + "\n...(truncated)"
			}
			return r.raw
		}
	}
	return ""
}
