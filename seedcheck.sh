#!/bin/bash
# seedcheck.sh <dir with patch.diff demo.sh> [props...]  : confirm a seeded change and run the checks against it
# 1. scratch worktree of /repo HEAD: tests + demo on clean, then with the patch
# 2. apply to /repo, run the checks, revert
set -u
D="$(cd "$1" && pwd)"; shift
PROPS="$@"
export GOFLAGS=-mod=mod GOPROXY=off GOSUMDB=off GOTOOLCHAIN=local
SV=/tmp/sv/$$
mkdir -p /tmp/sv
git -C /repo worktree add -q --detach $SV/wt HEAD || exit 9
trap 'git -C /repo worktree remove --force $SV/wt >/dev/null 2>&1; rm -rf $SV' EXIT
demo() { # run demo with the worktree path substituted
  rm -rf $SV/seed; cp -r "$D" $SV/seed
  sed -i "s#/tmp/seed/C[0-9]*/wt#$SV/wt#g" $SV/seed/demo.sh; chmod +x $SV/seed/demo.sh
  (cd $SV/seed && timeout 300 bash ./demo.sh $SV/wt >$SV/demo.out 2>&1); echo $?
}
clean_demo=$(demo)
if ! git -C $SV/wt apply --check "$D/patch.diff" 2>/dev/null; then echo "RESULT patch-does-not-apply"; exit 0; fi
git -C $SV/wt apply "$D/patch.diff"
build=ok; (cd $SV/wt && go build ./... >/dev/null 2>&1) || build=FAIL
tests=$(cd $SV/wt && go test -vet=off -count=1 ./... 2>&1 | grep -c "^ok")
patched_demo=$(demo)
echo "CONFIRM clean_demo_exit=$clean_demo build=$build tests_ok_pkgs=$tests patched_demo_exit=$patched_demo"
git -C /repo apply "$D/patch.diff" || { echo "cannot apply to /repo"; exit 0; }
caught=""
for p in $PROPS; do
  out=$(cd /verif && ./check $p 2>&1)
  if echo "$out" | grep -q "^VIOLATION"; then caught="$caught $p"; echo "$out" | grep "^VIOLATION" | head -3 | cut -c1-260; fi
  if echo "$out" | grep -q "^ERROR"; then echo "$p: $(echo "$out" | grep '^ERROR' | head -1)"; fi
done
git -C /repo checkout -- .
echo "RESULT caught_by:${caught:- NONE}"
