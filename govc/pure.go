package main

// Pure-function summaries: side-effect free repo functions (getters, spec
// functions, predicates) are translated once into SMT define-fun /
// define-fun-rec by running the same symbolic executor over their SSA and
// merging the return values of all paths with ite.

import (
	"os"
	"fmt"
	"go/types"
	"sort"
	"strings"

	"golang.org/x/tools/go/ssa"
)

type PureDef struct {
	name       string
	key        string
	fn         *ssa.Function
	params     []*Term
	resSort    string
	body       *Term
	okName     string
	okBody     *Term
	recursive  bool
	inlineBody *Term
	state      int // 1 in progress, 2 done, 3 failed
	why        string
	ptrParam   []bool   // parameter i is a read-only pointer, passed as the pointee value
	heapSorts  []string // map heaps read: passed as trailing arguments
	more       []*Term  // bodies of results 1..n-1 (functions named name!r<i>)
	moreSorts  []string
}

var pureByFn = map[*ssa.Function]*PureDef{}
var pureByName = map[string]*PureDef{}
var dispatchByMethod = map[string]*PureDef{}

func (w *World) pureEligible(fn *ssa.Function) bool {
	if fn == nil || len(fn.Blocks) == 0 || !w.inRepo(fn) || len(fn.FreeVars) > 0 {
		return false
	}
	sig := fn.Signature
	if sig.Results().Len() < 1 {
		return false
	}
	if fc := w.contracts[funcKey(fn)]; fc != nil && fc.Flags["nopure"] {
		return false
	}
	chk := func(t types.Type) bool {
		switch t.Underlying().(type) {
		case *types.Pointer, *types.Signature, *types.Chan:
			return false
		}
		s := w.sortOf(t)
		return s != "Opaque"
	}
	eff := w.effects(fn)
	if eff.opaque || eff.events || len(eff.heaps) > 0 || eff.globals {
		return false
	}
	for i, p := range fn.Params {
		if pt, ok := p.Type().Underlying().(*types.Pointer); ok && isHandleType(pt.Elem()) {
			if len(eff.fields[i]) > 0 {
				return false
			}
			continue
		}
		if !chk(p.Type()) {
			return false
		}
	}
	for i := 0; i < sig.Results().Len(); i++ {
		if !chk(sig.Results().At(i).Type()) {
			return false
		}
	}
	return true
}

func (w *World) typeHasHeap(t types.Type, depth int) bool {
	if depth > 4 {
		return false
	}
	switch u := t.Underlying().(type) {
	case *types.Map:
		return true
	case *types.Struct:
		for i := 0; i < u.NumFields(); i++ {
			if w.typeHasHeap(u.Field(i).Type(), depth+1) {
				return true
			}
		}
	}
	return false
}

func (w *World) pureDef(fn *ssa.Function) *PureDef {
	if pd, ok := pureByFn[fn]; ok {
		switch pd.state {
		case 1:
			pd.recursive = true
			return pd
		case 2:
			return pd
		default:
			return nil
		}
	}
	if !w.pureEligible(fn) {
		pureByFn[fn] = &PureDef{state: 3, why: "not eligible"}
		return nil
	}
	key := funcKey(fn)
	pd := &PureDef{name: "F_" + mangle(key), key: key, fn: fn, state: 1}
	pd.resSort = w.sortOf(fn.Signature.Results().At(0).Type())
	for i := 1; i < fn.Signature.Results().Len(); i++ {
		pd.moreSorts = append(pd.moreSorts, w.sortOf(fn.Signature.Results().At(i).Type()))
	}
	for _, p := range fn.Params {
		if pt, ok := p.Type().Underlying().(*types.Pointer); ok && isHandleType(pt.Elem()) {
			pd.params = append(pd.params, VarT("p_"+p.Name(), w.sortOf(pt.Elem())))
			pd.ptrParam = append(pd.ptrParam, true)
			continue
		}
		pd.params = append(pd.params, VarT("p_"+p.Name(), w.sortOf(p.Type())))
		pd.ptrParam = append(pd.ptrParam, false)
	}
	pureByFn[fn] = pd
	pureByName[pd.name] = pd
	pureByName[pd.name+"!ok"] = pd
	for j := range pd.moreSorts {
		pureByName[fmt.Sprintf("%s!r%d", pd.name, j+1)] = pd
	}
	w.summarize(pd)
	if pd.state != 2 {
		delete(pureByName, pd.name)
		delete(pureByName, pd.name+"!ok")
		for j := range pd.moreSorts {
			delete(pureByName, fmt.Sprintf("%s!r%d", pd.name, j+1))
		}
		return nil
	}
	return pd
}

func (w *World) summarize(pd *PureDef) {
	x := newExec(w, pd.key)
	x.pureMode = true
	x.maxPaths = 2000
	st := newState()
	var args []Value
	for i, p := range pd.fn.Params {
		if pd.ptrParam[i] {
			c := x.newCell(p.Name(), p.Type().Underlying().(*types.Pointer).Elem())
			st.cells[c] = pd.params[i]
			args = append(args, &PtrV{cell: c})
			continue
		}
		args = append(args, pd.params[i])
	}
	x.pureCellBase = x.cellID
	x.pureHeaps = map[string]*Term{}
	nres := 1 + len(pd.moreSorts)
	x.runFunc(st, pd.fn, args, nil, func(s2 *State, res []Value) {
		if len(res) != nres {
			x.pureFail = "result arity"
			return
		}
		var vals []*Term
		for _, r := range res {
			t := x.term(r)
			if t == nil {
				x.pureFail = "non-term result"
				return
			}
			vals = append(vals, t)
		}
		x.pureRets = append(x.pureRets, pureRet{pc: s2.pc.list(), val: vals[0], vals: vals})
	})
	if x.pureFail != "" || x.outside != "" {
		pd.state = 3
		pd.why = x.pureFail + x.outside
		return
	}
	var body *Term
	more := make([]*Term, len(pd.moreSorts))
	var panics []*Term
	for i := len(x.pureRets) - 1; i >= 0; i-- {
		r := x.pureRets[i]
		if r.panics {
			panics = append(panics, And(r.pc...))
			continue
		}
		if body == nil {
			body = r.val
			for j := range more {
				more[j] = r.vals[j+1]
			}
		} else {
			c := And(r.pc...)
			body = Ite(c, r.val, body)
			for j := range more {
				more[j] = Ite(c, r.vals[j+1], more[j])
			}
		}
	}
	if body == nil {
		body = w.zeroOfSort(pd.resSort, pd.fn.Signature.Results().At(0).Type())
		for j := range more {
			more[j] = w.zeroOfSort(pd.moreSorts[j], pd.fn.Signature.Results().At(j+1).Type())
		}
	}
	pd.more = more
	for cs := range x.pureHeaps {
		pd.heapSorts = append(pd.heapSorts, cs)
	}
	sort.Strings(pd.heapSorts)
	for _, cs := range pd.heapSorts {
		pd.params = append(pd.params, x.pureHeaps[cs])
	}
	// quantified assumptions created while summarising cannot be carried into a definition
	for _, r := range x.pureRets {
		for _, c := range r.pc {
			if hasQuant(c) {
				pd.state = 3
				pd.why = "quantified path fact"
				return
			}
		}
	}
	pd.body = body
	if len(panics) > 0 {
		pd.okName = pd.name + "!ok"
		pd.okBody = Not(Or(panics...))
	}
	pd.state = 2
	if !pd.recursive && !hasFreshVars(body, pd.params) && len(body.String()) < 600 && pd.okName == "" && len(more) == 0 {
		pd.inlineBody = body
	}
	bad := hasFreshVars(body, pd.params) || (pd.okBody != nil && hasFreshVars(pd.okBody, pd.params))
	for _, m := range more {
		if hasFreshVars(m, pd.params) {
			bad = true
		}
	}
	if bad {
		// body mentions symbols other than its parameters (havocked library results):
		// not a function of its arguments
		pd.state = 3
		pd.why = "body depends on unconstrained symbols"
	}
}

func hasQuant(t *Term) bool {
	found := false
	walk(t, func(s *Term) {
		if s.Kind == KQuant {
			found = true
		}
	})
	return found
}

func hasFreshVars(t *Term, params []*Term) bool {
	vs := map[string]string{}
	collectVars(t, vs)
	for _, p := range params {
		delete(vs, p.Op)
	}
	for v := range vs {
		if strings.HasPrefix(v, "arr0_") || v == "opaque_nil" || strings.HasPrefix(v, "G_") {
			continue
		}
		return true
	}
	return false
}

// dispatchDef builds D_<method>(x Dyn, args...) over all AST node types that have the method.
func (w *World) dispatchDef(method string) *PureDef {
	if pd, ok := dispatchByMethod[method]; ok {
		if pd.state == 3 {
			return nil
		}
		if pd.state == 1 {
			pd.recursive = true
		}
		return pd
	}
	pd := &PureDef{name: "D_" + method, key: "dispatch." + method, state: 1}
	dispatchByMethod[method] = pd
	pureByName[pd.name] = pd
	pureByName[pd.name+"!ok"] = pd
	xv := VarT("p_x", "Dyn")
	pd.params = []*Term{xv}
	type alt struct {
		ctor string
		def  *PureDef
	}
	var alts []alt
	var extra []*Term
	// reference signature: the AST interface method of that name, if any
	var refSig *types.Signature
	for _, it := range w.astIfaces {
		iface := it.Underlying().(*types.Interface)
		for i := 0; i < iface.NumMethods(); i++ {
			if iface.Method(i).Name() == method {
				refSig = iface.Method(i).Type().(*types.Signature)
			}
		}
	}
	for _, t := range w.dynTypes {
		ms := w.prog.MethodSets.MethodSet(t)
		var sel *types.Selection
		for i := 0; i < ms.Len(); i++ {
			if ms.At(i).Obj().Name() == method {
				sel = ms.At(i)
			}
		}
		if sel == nil {
			continue
		}
		fn := w.prog.MethodValue(sel)
		if fn == nil {
			continue
		}
		msig := sel.Obj().Type().(*types.Signature)
		if refSig == nil {
			refSig = msig
		}
		if !types.Identical(types.NewSignatureType(nil, nil, nil, msig.Params(), msig.Results(), false),
			types.NewSignatureType(nil, nil, nil, refSig.Params(), refSig.Results(), false)) {
			continue
		}
		if pd.resSort == "" {
			pd.resSort = w.sortOf(fn.Signature.Results().At(0).Type())
			for i := 0; i < fn.Signature.Params().Len(); i++ {
				p := VarT(fmt.Sprintf("p_a%d", i), w.sortOf(fn.Signature.Params().At(i).Type()))
				pd.params = append(pd.params, p)
				extra = append(extra, p)
			}
		}
		d := w.pureDef(fn)
		if d == nil {
			pd.state = 3
			pd.why = "method " + funcKey(fn) + " is not pure: " + pureByFn[fn].why
			if os.Getenv("GOVC_DEBUG") != "" {
				fmt.Fprintln(os.Stderr, "dispatch", method, "fails:", pd.why)
			}
			return nil
		}
		alts = append(alts, alt{ctor: w.dynCtor[typeKey(t)], def: d})
	}
	if len(alts) == 0 {
		pd.state = 3
		return nil
	}
	body := w.zeroOfSort(pd.resSort, nil)
	ok := True
	hasOk := false
	for i := len(alts) - 1; i >= 0; i-- {
		a := alts[i]
		payload := Sel(ctorByName[a.ctor].Sels[0], xv)
		args := append([]*Term{payload}, extra...)
		body = Ite(Is(a.ctor, xv), App(a.def.name, a.def.resSort, args...), body)
		if a.def.okName != "" {
			hasOk = true
			ok = Ite(Is(a.ctor, xv), App(a.def.okName, "Bool", args...), ok)
		}
	}
	pd.body = body
	if hasOk && w.totalMethods[method] {
		// declared total: never panics on a non-nil receiver (each implementation is verified on its
		// own under its node invariant, with this very assumption for the calls on its children)
		hasOk = false
		delete(pureByName, pd.name+"!ok")
	}
	if hasOk {
		pd.okName = pd.name + "!ok"
		pd.okBody = ok
	}
	// dispatch functions are always emitted as (possibly recursive) definitions
	pd.recursive = true
	pd.state = 2
	return pd
}

// defsFor returns the SMT definitions needed by the given terms, in a valid order.
func (w *World) defsFor(terms []*Term) string {
	need := map[string]*PureDef{}
	var visit func(t *Term)
	var order []*PureDef
	var visitDef func(pd *PureDef)
	visitDef = func(pd *PureDef) {
		if _, ok := need[pd.name]; ok {
			return
		}
		need[pd.name] = pd
		if pd.body != nil {
			visit(pd.body)
		}
		if pd.okBody != nil {
			visit(pd.okBody)
		}
		for _, m := range pd.more {
			visit(m)
		}
		order = append(order, pd)
	}
	visit = func(t *Term) {
		walk(t, func(s *Term) {
			if s.Kind == KApp {
				if pd, ok := pureByName[s.Op]; ok && pd.state == 2 {
					visitDef(pd)
				}
			}
		})
	}
	for _, t := range terms {
		visit(t)
	}
	if len(order) == 0 {
		return ""
	}
	// group: everything possibly recursive goes into one define-funs-rec block
	var nonrec, rec []*PureDef
	for _, pd := range order {
		if pd.recursive || w.dependsOnRecursive(pd, map[string]bool{}) {
			rec = append(rec, pd)
		} else {
			nonrec = append(nonrec, pd)
		}
	}
	var b strings.Builder
	sig := func(name string, pd *PureDef, res string) string {
		var ps []string
		for _, p := range pd.params {
			ps = append(ps, "("+p.Op+" "+p.Sort+")")
		}
		return "(" + name + " (" + strings.Join(ps, " ") + ") " + res + ")"
	}
	for _, pd := range nonrec {
		var ps []string
		for _, p := range pd.params {
			ps = append(ps, "("+p.Op+" "+p.Sort+")")
		}
		fmt.Fprintf(&b, "(define-fun %s (%s) %s %s)\n", pd.name, strings.Join(ps, " "), pd.resSort, pd.body.String())
		if pd.okName != "" {
			fmt.Fprintf(&b, "(define-fun %s (%s) Bool %s)\n", pd.okName, strings.Join(ps, " "), pd.okBody.String())
		}
		for j, m := range pd.more {
			fmt.Fprintf(&b, "(define-fun %s!r%d (%s) %s %s)\n", pd.name, j+1, strings.Join(ps, " "), pd.moreSorts[j], m.String())
		}
	}
	if len(rec) > 0 {
		sort.SliceStable(rec, func(i, j int) bool { return rec[i].name < rec[j].name })
		var sigs, bodies []string
		for _, pd := range rec {
			sigs = append(sigs, sig(pd.name, pd, pd.resSort))
			bodies = append(bodies, pd.body.String())
			if pd.okName != "" {
				sigs = append(sigs, sig(pd.okName, pd, "Bool"))
				bodies = append(bodies, pd.okBody.String())
			}
			for j, m := range pd.more {
				sigs = append(sigs, sig(fmt.Sprintf("%s!r%d", pd.name, j+1), pd, pd.moreSorts[j]))
				bodies = append(bodies, m.String())
			}
		}
		b.WriteString("(define-funs-rec (\n  " + strings.Join(sigs, "\n  ") + ")\n (\n  " + strings.Join(bodies, "\n  ") + "))\n")
	}
	return b.String()
}

func (w *World) dependsOnRecursive(pd *PureDef, seen map[string]bool) bool {
	if seen[pd.name] {
		return false
	}
	seen[pd.name] = true
	dep := false
	chk := func(t *Term) {
		if t == nil {
			return
		}
		walk(t, func(s *Term) {
			if s.Kind == KApp {
				if d, ok := pureByName[s.Op]; ok && d != pd {
					if d.recursive || w.dependsOnRecursive(d, seen) {
						dep = true
					}
				}
			}
		})
	}
	chk(pd.body)
	chk(pd.okBody)
	for _, m := range pd.more {
		chk(m)
	}
	return dep
}

// eventSorts gives the static argument/result sorts of an event kind.
func (w *World) eventSorts(name string, from *ssa.Function) ([]string, []string, bool) {
	conv := w.spkgs["transpiler"]
	evSort := func(t types.Type) string {
		switch t.Underlying().(type) {
		case *types.Signature:
			return "String"
		case *types.Pointer:
			s := w.sortOf(t)
			if strings.HasPrefix(s, "Ptr_") {
				if n, ok := t.Underlying().(*types.Pointer).Elem().(*types.Named); ok {
					switch n.Obj().Name() {
					case "converter", "Parser", "transpiler":
						return w.sortOf(n) // logged as a snapshot of the pointee
					}
				}
				return s
			}
			return "Int"
		}
		s := w.sortOf(t)
		if s == "Opaque" {
			return "Int"
		}
		return s
	}
	if conv != nil {
		if tn, ok := conv.Pkg.Scope().Lookup("Converter").(*types.TypeName); ok {
			iface := tn.Type().Underlying().(*types.Interface)
			for i := 0; i < iface.NumMethods(); i++ {
				m := iface.Method(i)
				if m.Name() == name {
					sig := m.Type().(*types.Signature)
					var as, rs []string
					for j := 0; j < sig.Params().Len(); j++ {
						as = append(as, evSort(sig.Params().At(j).Type()))
					}
					for j := 0; j < sig.Results().Len(); j++ {
						rs = append(rs, evSort(sig.Results().At(j).Type()))
					}
					return as, rs, true
				}
			}
		}
	}
	// a function-typed parameter of the function under verification
	if from != nil {
		for _, p := range from.Params {
			if sig, ok := p.Type().Underlying().(*types.Signature); ok && p.Name() == name {
				var as, rs []string
				for j := 0; j < sig.Params().Len(); j++ {
					as = append(as, evSort(sig.Params().At(j).Type()))
				}
				for j := 0; j < sig.Results().Len(); j++ {
					rs = append(rs, evSort(sig.Results().At(j).Type()))
				}
				return as, rs, true
			}
		}
	}
	// a modelled library function (logged under its mangled qualified name)
	for _, pkg := range w.prog.AllPackages() {
		if pkg == nil || pkg.Pkg == nil || !strings.HasPrefix(name, mangle(pkg.Pkg.Path())+"_") {
			continue
		}
		for _, m := range pkg.Members {
			fn, ok := m.(*ssa.Function)
			if !ok || mangle(libName(fn)) != name {
				continue
			}
			var as, rs []string
			for _, p := range fn.Params {
				as = append(as, evSort(p.Type()))
			}
			res := fn.Signature.Results()
			for j := 0; j < res.Len(); j++ {
				rs = append(rs, evSort(res.At(j).Type()))
			}
			return as, rs, true
		}
	}
	var cands []*ssa.Function
	for _, fn := range w.allRepoFuncs() {
		if fn.Name() == name {
			cands = append(cands, fn)
		}
	}
	// prefer the package of the function under verification
	sort.SliceStable(cands, func(i, j int) bool {
		pi := from != nil && cands[i].Pkg == from.Pkg
		pj := from != nil && cands[j].Pkg == from.Pkg
		return pi && !pj
	})
	for _, fn := range cands {
		if true {
			var as, rs []string
			for _, p := range fn.Params {
				as = append(as, evSort(p.Type()))
			}
			res := fn.Signature.Results()
			for j := 0; j < res.Len(); j++ {
				rs = append(rs, evSort(res.At(j).Type()))
			}
			return as, rs, true
		}
	}
	// a method invoked through some other interface in the function under verification
	// (hash.Hash.Write, ...): sorts from the invoked method's signature
	if from != nil {
		for _, b := range from.Blocks {
			for _, ins := range b.Instrs {
				ci, ok := ins.(ssa.CallInstruction)
				if !ok {
					continue
				}
				var sig *types.Signature
				if name == "dyncall" && !ci.Common().IsInvoke() {
					// a call of a function value read out of a data structure
					switch ci.Common().Value.(type) {
					case *ssa.Function, *ssa.MakeClosure, *ssa.Builtin, *ssa.Parameter:
						continue
					}
					sig = ci.Common().Signature()
				} else if ci.Common().IsInvoke() && ci.Common().Method.Name() == name {
					sig = ci.Common().Method.Type().(*types.Signature)
				} else {
					continue
				}
				var as, rs []string
				for j := 0; j < sig.Params().Len(); j++ {
					as = append(as, evSort(sig.Params().At(j).Type()))
				}
				for j := 0; j < sig.Results().Len(); j++ {
					rs = append(rs, evSort(sig.Results().At(j).Type()))
				}
				return as, rs, true
			}
		}
	}
	return nil, nil, false
}
