#!/bin/bash
# Regenerates every ledger from the unchanged tree (one property at a time: parallel runs push borderline obligations over the entry limit), then runs every quick check.
# Usage: ./regen.sh [props...]
cd "$(dirname "$0")"
./setup.sh >/dev/null || exit 3
props="$@"
[ -z "$props" ] && props="C01 C02 C03 C04 C05 C06 C07 C08 C09 C10 C11 C12 C13 C14 C16 C17 C18 C19"
mkdir -p /tmp/regen
echo $props | tr ' ' '\n' | xargs -P 1 -I{} sh -c 'if [ {} = C13 ]; then bin/govc ledger -prop {} -timeout 10 -maxsecs 7 > /tmp/regen/led_{}.txt 2>&1; else bin/govc ledger -prop {} -timeout 20 -maxsecs 15 > /tmp/regen/led_{}.txt 2>&1; fi; tail -1 /tmp/regen/led_{}.txt'
for p in $props; do
  ./check $p --tier quick > /tmp/regen/chk_$p.txt 2>&1; rc=$?
  echo "$p rc=$rc $(grep -c '^VIOLATION' /tmp/regen/chk_$p.txt) violations, $(grep -c 'CONTRACT-ERROR' /tmp/regen/chk_$p.txt) contract errors; $(tail -1 /tmp/regen/chk_$p.txt | cut -c1-160)"
done
