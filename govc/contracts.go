package main

// Contract files: //go:build verif files named zz_contracts_verif.go in the
// repository packages.  They hold (a) ordinary Go spec functions, translated by
// the same engine, and (b) comment-only contract blocks introduced by `//@`.
//
//   //@ func (*converter).nextHelperVar
//   //@   ensures[C01,C10] fresh: result == "_h" + itoa(old(c.varCounter))
//   //@   loop 1 invariant[C02] name: expr
//   //@   loop 1 unroll
//
// A clause continues on following `//@` lines indented by six or more blanks.

import (
	"fmt"
	"go/ast"
	"go/parser"
	"go/token"
	"os"
	"path/filepath"
	"regexp"
	"strconv"
	"strings"
)

type Clause struct {
	Kind   string // requires | ensures | invariant | unroll | lemma | assume | witness | pure | inline | event | havoc
	Props  []string
	Label  string
	Text   string
	Expr   ast.Expr
	Loop   int // 1-based loop ordinal for loop clauses
	LoopKey string // header text naming the loop (instead of an ordinal)
	Param  string
	File   string
	Line   int
	OnErr  bool
}

type Macro struct {
	Name   string
	Params []string
	Expr   ast.Expr
	Pkg    string
}

type FuncContract struct {
	Key      string
	Pkg      string
	Requires []*Clause
	Ensures  []*Clause
	Loops    map[int][]*Clause
	LoopsByText map[string][]*Clause // loops named by header text, resolved per function
	textResolved bool
	Params   map[string][]*Clause // param-function contracts: ensures clauses
	Flags    map[string]bool      // opaque (do not inline, use contract), noinline, ...
	Lemmas   []*Clause
	Witness  []*Clause
	CallSites map[string][]*Clause // assertions owed just before this function calls the named callee
	File     string
	Line     int
}

var recvInvRe = regexp.MustCompile(`^invariant\s+\(\*?(\w+)\)\s+(\w+)\s*(\[[A-Z0-9,]*\])?\s+([A-Za-z0-9_\-.]+):\s*(.*)$`)
var typeInvRe = regexp.MustCompile(`^type-invariant\s+(\w+)\s+(\w+)\s*(\[[A-Z0-9,]*\])?\s+([A-Za-z0-9_\-.]+):\s*(.*)$`)
var nodeInvRe = regexp.MustCompile(`^node-invariant\s+(\w+)\s+(\w+)\s*(\[[A-Z0-9,]*\])?\s+([A-Za-z0-9_\-.]+):\s*(.*)$`)
var totalRe = regexp.MustCompile(`^total\s+(\w+)\s*$`)
var frameRe = regexp.MustCompile(`^postcondition\s+\(\*?(\w+)\)\s*(\[[A-Z0-9,]*\])?\s+([A-Za-z0-9_\-.]+):\s*(.*)$`)
var defineRe = regexp.MustCompile(`^define\s+(\w+)\(([^)]*)\):\s*(.*)$`)
var clauseRe = regexp.MustCompile(`^(requires|ensures|lemma|assume|witness|flag)(\[[A-Z0-9,]*\])?\s+([A-Za-z0-9_\-.]+):\s*(.*)$`)
var loopRe = regexp.MustCompile(`^loop\s+(\d+|@"[^"]+")\s+(invariant|unroll|exit|decreases)(\[[A-Z0-9,]*\])?\s*(?:([A-Za-z0-9_\-.]+):\s*(.*))?$`)
var callsiteRe = regexp.MustCompile(`^callsite\s+(\w+)\s+requires(\[[A-Z0-9,]*\])?\s+([A-Za-z0-9_\-.]+):\s*(.*)$`)
var paramRe = regexp.MustCompile(`^param\s+(\w+)\s+(ensures|requires)(\[[A-Z0-9,]*\])?\s+([A-Za-z0-9_\-.]+):\s*(.*)$`)

func parseProps(s string) []string {
	s = strings.Trim(s, "[]")
	if s == "" {
		return nil
	}
	return strings.Split(s, ",")
}

func (w *World) loadContracts(repo string) error {
	dirs := map[string]string{
		"lexer": "lexer", "parser": "parser", "transpiler": "transpiler",
		"bash": "converters/bash", "batch": "converters/batch", "main": ".",
	}
	for pkg, dir := range dirs {
		matches, _ := filepath.Glob(filepath.Join(repo, dir, "zz_*_verif.go"))
		for _, file := range matches {
			if _, dropped := droppedSpecFiles[file]; dropped {
				continue
			}
			if err := w.loadContractFile(pkg, file); err != nil {
				return err
			}
			w.specFiles = append(w.specFiles, file)
		}
	}
	return nil
}

func (w *World) loadContractFile(pkg, file string) error {
	data, err := os.ReadFile(file)
	if err != nil {
		return err
	}
	lines := strings.Split(string(data), "\n")
	var cur *FuncContract
	var last *Clause
	var pendingMacro *Macro
	finish := func() error {
		if last == nil {
			return nil
		}
		c := last
		last = nil
		if c.Kind == "unroll" || c.Kind == "flag" || c.Kind == "witness" {
			return nil
		}
		if c.Kind == "define" {
			e, err := parseSpecExpr(c.Text)
			if err != nil {
				return fmt.Errorf("%s:%d: define %s: %v", c.File, c.Line, c.Label, err)
			}
			pendingMacro.Expr = e
			return nil
		}
		e, err := parseSpecExpr(c.Text)
		if err != nil {
			return fmt.Errorf("%s:%d: contract %s/%s: %v\n   text: %s", c.File, c.Line, cur.Key, c.Label, err, c.Text)
		}
		c.Expr = e
		return nil
	}
	for i, ln := range lines {
		t := strings.TrimSpace(ln)
		if !strings.HasPrefix(t, "//@") {
			continue
		}
		body := strings.TrimPrefix(t, "//@")
		if strings.TrimSpace(body) == "" {
			continue
		}
		indent := len(body) - len(strings.TrimLeft(body, " "))
		txt := strings.TrimSpace(body)
		if indent >= 6 && last != nil {
			last.Text += " " + txt
			continue
		}
		if err := finish(); err != nil {
			return err
		}
		if m := recvInvRe.FindStringSubmatch(txt); m != nil {
			if w.recvInv == nil {
				w.recvInv = map[string][]*Clause{}
			}
			c := &Clause{Kind: "recvinv", Props: parseProps(m[3]), Label: m[4], Text: m[5], Param: m[2], File: file, Line: i + 1}
			key := pkg + "." + m[1]
			w.recvInv[key] = append(w.recvInv[key], c)
			cur = &FuncContract{Key: pkg + ".invariant." + m[1], Pkg: pkg, Loops: map[int][]*Clause{}, Params: map[string][]*Clause{}, Flags: map[string]bool{}}
			last = c
			continue
		}
		if m := typeInvRe.FindStringSubmatch(txt); m != nil {
			// an invariant of every value of a named struct type that is passed between functions
			if w.typeInv == nil {
				w.typeInv = map[string][]*Clause{}
			}
			c := &Clause{Kind: "typeinv", Props: parseProps(m[3]), Label: m[4], Text: m[5], Param: m[2], File: file, Line: i + 1}
			key := pkg + "." + m[1]
			w.typeInv[key] = append(w.typeInv[key], c)
			cur = &FuncContract{Key: pkg + ".typeinv." + m[1], Pkg: pkg, Loops: map[int][]*Clause{}, Params: map[string][]*Clause{}, Flags: map[string]bool{}}
			last = c
			continue
		}
		if m := nodeInvRe.FindStringSubmatch(txt); m != nil {
			// an invariant of every value of an AST node type that is ever boxed into an AST interface:
			// owed where such a value is converted to the interface, available for every interface value
			if w.nodeInv == nil {
				w.nodeInv = map[string][]*Clause{}
			}
			c := &Clause{Kind: "nodeinv", Props: parseProps(m[3]), Label: m[4], Text: m[5], Param: m[2], File: file, Line: i + 1}
			key := pkg + "." + m[1]
			w.nodeInv[key] = append(w.nodeInv[key], c)
			cur = &FuncContract{Key: pkg + ".nodeinv." + m[1], Pkg: pkg, Loops: map[int][]*Clause{}, Params: map[string][]*Clause{}, Flags: map[string]bool{}}
			last = c
			continue
		}
		if m := totalRe.FindStringSubmatch(txt); m != nil {
			// an AST interface method that never panics on a non-nil receiver (justified by the safety
			// obligations of its implementations, which are verified under the node invariants)
			if w.totalMethods == nil {
				w.totalMethods = map[string]bool{}
			}
			w.totalMethods[m[1]] = true
			continue
		}
		if m := frameRe.FindStringSubmatch(txt); m != nil {
			// a postcondition every method of the type guarantees (unless flagged `nocommon`)
			if w.commonPost == nil {
				w.commonPost = map[string][]*Clause{}
			}
			c := &Clause{Kind: "commonpost", Props: parseProps(m[2]), Label: m[3], Text: m[4], File: file, Line: i + 1}
			key := pkg + "." + m[1]
			w.commonPost[key] = append(w.commonPost[key], c)
			cur = &FuncContract{Key: pkg + ".postcondition." + m[1], Pkg: pkg, Loops: map[int][]*Clause{}, Params: map[string][]*Clause{}, Flags: map[string]bool{}}
			last = c
			continue
		}
		if m := defineRe.FindStringSubmatch(txt); m != nil {
			mc := &Macro{Name: m[1], Pkg: pkg}
			for _, p := range strings.Split(m[2], ",") {
				if p = strings.TrimSpace(p); p != "" {
					mc.Params = append(mc.Params, p)
				}
			}
			if w.macros == nil {
				w.macros = map[string]*Macro{}
			}
			w.macros[pkg+"."+m[1]] = mc
			// body may continue on following lines: reuse the clause mechanism
			dummy := &FuncContract{Key: pkg + ".define." + m[1], Pkg: pkg, Loops: map[int][]*Clause{}, Params: map[string][]*Clause{}, Flags: map[string]bool{}}
			cur = dummy
			c := &Clause{Kind: "define", Label: m[1], Text: m[3], File: file, Line: i + 1}
			last = c
			pendingMacro = mc
			continue
		}
		if strings.HasPrefix(txt, "func ") {
			name := strings.TrimSpace(strings.TrimPrefix(txt, "func "))
			key := pkg + "." + name
			cur = w.contracts[key]
			if cur == nil {
				cur = &FuncContract{Key: key, Pkg: pkg, Loops: map[int][]*Clause{}, Params: map[string][]*Clause{}, Flags: map[string]bool{}, File: file, Line: i + 1}
				w.contracts[key] = cur
			}
			continue
		}
		if cur == nil {
			return fmt.Errorf("%s:%d: clause outside func block", file, i+1)
		}
		if m := loopRe.FindStringSubmatch(txt); m != nil {
			c := &Clause{Kind: m[2], Props: parseProps(m[3]), Label: m[4], Text: m[5], File: file, Line: i + 1}
			if strings.HasPrefix(m[1], "@") {
				// a loop named by a piece of its header text (`range xs`, `for i < n`): robust against
				// other loops being added to or removed from the function
				key := strings.Trim(m[1][1:], `"`)
				c.LoopKey = key
				if cur.LoopsByText == nil {
					cur.LoopsByText = map[string][]*Clause{}
				}
				cur.LoopsByText[key] = append(cur.LoopsByText[key], c)
			} else {
				n, _ := strconv.Atoi(m[1])
				c.Loop = n
				cur.Loops[n] = append(cur.Loops[n], c)
			}
			last = c
			continue
		}
		if m := callsiteRe.FindStringSubmatch(txt); m != nil {
			c := &Clause{Kind: "callsite", Props: parseProps(m[2]), Label: m[3], Text: m[4], Param: m[1], File: file, Line: i + 1}
			if cur.CallSites == nil {
				cur.CallSites = map[string][]*Clause{}
			}
			cur.CallSites[m[1]] = append(cur.CallSites[m[1]], c)
			last = c
			continue
		}
		if m := paramRe.FindStringSubmatch(txt); m != nil {
			c := &Clause{Kind: m[2], Props: parseProps(m[3]), Label: m[4], Text: m[5], Param: m[1], File: file, Line: i + 1}
			cur.Params[m[1]] = append(cur.Params[m[1]], c)
			last = c
			continue
		}
		if m := clauseRe.FindStringSubmatch(txt); m != nil {
			c := &Clause{Kind: m[1], Props: parseProps(m[2]), Label: m[3], Text: m[4], File: file, Line: i + 1}
			switch c.Kind {
			case "requires":
				cur.Requires = append(cur.Requires, c)
			case "ensures":
				cur.Ensures = append(cur.Ensures, c)
			case "lemma":
				cur.Lemmas = append(cur.Lemmas, c)
			case "witness":
				cur.Witness = append(cur.Witness, c)
			case "flag":
				cur.Flags[c.Label] = true
			}
			last = c
			continue
		}
		return fmt.Errorf("%s:%d: cannot parse contract line: %s", file, i+1, txt)
	}
	return finish()
}

// parseSpecExpr parses the Go-syntax contract expression language.  `==>` is
// rewritten to a call implies(a, b) (right associative, lowest precedence),
// also inside parentheses and call arguments.
func parseSpecExpr(s string) (ast.Expr, error) {
	s = rewriteImplies(s)
	e, err := parser.ParseExprFrom(token.NewFileSet(), "contract", s, 0)
	if err != nil {
		return nil, err
	}
	return e, nil
}

// rewriteImplies turns  a ==> b  into implies(a, b) at every nesting level.
func rewriteImplies(s string) string {
	// process innermost bracket groups recursively
	var out strings.Builder
	i := 0
	for i < len(s) {
		c := s[i]
		if c == '"' || c == '`' || c == '\'' {
			j := i + 1
			for j < len(s) && s[j] != c {
				if s[j] == '\\' && c != '`' {
					j++
				}
				j++
			}
			if j >= len(s) {
				j = len(s) - 1
			}
			out.WriteString(s[i : j+1])
			i = j + 1
			continue
		}
		if c == '(' || c == '[' {
			close := byte(')')
			if c == '[' {
				close = ']'
			}
			depth := 0
			j := i
			for j < len(s) {
				if s[j] == '"' || s[j] == '`' || s[j] == '\'' {
					q := s[j]
					j++
					for j < len(s) && s[j] != q {
						if s[j] == '\\' && q != '`' {
							j++
						}
						j++
					}
				} else if s[j] == c {
					depth++
				} else if s[j] == close {
					depth--
					if depth == 0 {
						break
					}
				}
				j++
			}
			inner := s[i+1 : j]
			// split call arguments at top-level commas, rewrite each
			parts := splitTop(inner, ',')
			for k := range parts {
				parts[k] = rewriteImplies(parts[k])
			}
			out.WriteByte(c)
			out.WriteString(strings.Join(parts, ","))
			out.WriteByte(close)
			i = j + 1
			continue
		}
		out.WriteByte(c)
		i++
	}
	flat := out.String()
	parts := splitTopStr(flat, "==>")
	if len(parts) == 1 {
		return flat
	}
	res := parts[len(parts)-1]
	for k := len(parts) - 2; k >= 0; k-- {
		res = "implies(" + parts[k] + ", " + res + ")"
	}
	return res
}

func splitTop(s string, sep byte) []string {
	var parts []string
	depth := 0
	start := 0
	for i := 0; i < len(s); i++ {
		c := s[i]
		switch c {
		case '"', '`', '\'':
			q := c
			i++
			for i < len(s) && s[i] != q {
				if s[i] == '\\' && q != '`' {
					i++
				}
				i++
			}
		case '(', '[', '{':
			depth++
		case ')', ']', '}':
			depth--
		default:
			if c == sep && depth == 0 {
				parts = append(parts, s[start:i])
				start = i + 1
			}
		}
	}
	return append(parts, s[start:])
}

func splitTopStr(s string, sep string) []string {
	var parts []string
	depth := 0
	start := 0
	for i := 0; i < len(s); i++ {
		c := s[i]
		switch c {
		case '"', '`', '\'':
			q := c
			i++
			for i < len(s) && s[i] != q {
				if s[i] == '\\' && q != '`' {
					i++
				}
				i++
			}
		case '(', '[', '{':
			depth++
		case ')', ']', '}':
			depth--
		default:
			if depth == 0 && strings.HasPrefix(s[i:], sep) {
				parts = append(parts, s[start:i])
				start = i + len(sep)
				i += len(sep) - 1
			}
		}
	}
	return append(parts, s[start:])
}
