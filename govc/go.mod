module verif/govc

go 1.22.2

require (
	github.com/monstermichl/typeshell v0.0.0
	golang.org/x/tools v0.29.0
)

require (
	golang.org/x/mod v0.22.0 // indirect
	golang.org/x/sync v0.10.0 // indirect
)

replace github.com/monstermichl/typeshell => /repo
