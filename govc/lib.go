package main

// Models of library functions ("assumed contracts on dependencies").  Every
// model used in a run is listed in the evidence.

import (
	"fmt"
	"regexp"
	"regexp/syntax"
	"go/token"
	"go/types"
	"strings"

	"golang.org/x/tools/go/ssa"
)

var libDoc = map[string]string{
	"fmt.Sprintf":        "constant format with %s %d %v %x %%: concatenation of the pieces; %d via uninterpreted itoa",
	"fmt.Errorf":         "error whose message is the Sprintf result (non-nil)",
	"errors.New":         "non-nil error with the given message",
	"strings.Join":       "uninterpreted join(slice, sep) with exact unfolding for slices of statically known length",
	"strings.ReplaceAll": "SMT str.replace_all",
	"strings.HasPrefix":  "SMT str.prefixof",
	"strings.HasSuffix":  "SMT str.suffixof",
	"strings.Contains":   "SMT str.contains",
	"strings.Count":      "uninterpreted count over a range of the underlying string, with instantiated facts: non-negative, positive iff the range contains the separator, additive over adjacent ranges (one-character separators)",
	"strings.LastIndex":  "uninterpreted last index over a range of the underlying string, with instantiated facts: -1 iff the range does not contain the separator, otherwise the separator stands there; over adjacent ranges the later range wins (one-character separators)",
	"strings.Split":      "uninterpreted; result non-nil with len >= 1; len > 1 iff the string contains the (non-empty) separator",
	"strings.TrimSpace":  "uninterpreted trim_space; identity on strings without leading/trailing white space is NOT assumed",
	"strings.TrimLeft":   "uninterpreted trim_left(s, cutset)",
	"strings.TrimSuffix": "if suffix then prefix without it else identity",
	"slices.Contains":    "exists index below len with equal element (finite disjunction for literal slices)",
	"slices.Delete":      "elements [i,j) removed, order kept (quantified description)",
	"slices.DeleteFunc":  "result no longer than the argument; when the predicate is a closure without effects (evaluated symbolically on an arbitrary element): the result is the order-preserving subsequence of exactly the elements that fail the predicate (index maps idx / inv as uninterpreted functions)",
	"slices.Clone":       "same elements (value semantics)",
	"maps.Clone":         "fresh reference with equal content; nil stays nil",
	"maps.DeleteFunc":    "content of the map reference replaced by an unconstrained sub-map (has' implies has; values kept)",
	"strconv.Itoa":       "uninterpreted itoa: Int -> String, injective, digits only for non-negative arguments (instantiated per term)",
	"strconv.Atoi":       "uninterpreted atoi with atoi(itoa(k)) = k; error iff not an integer literal (unconstrained)",
	"strconv.ParseBool":  "\"true\" -> true, \"false\" -> false without error; other inputs unconstrained",
	"strconv.Unquote":    "uninterpreted; error unconstrained",
	"regexp":             "MustCompile(constant).FindString/FindStringSubmatch/MatchString uninterpreted per pattern with shape axioms: FindString result is a prefix of the subject for ^-anchored patterns; submatch result nil or of length 1+groups with [0] a prefix",
	"os/filepath":        "os.Stat, os.ReadFile, os.Executable, os.WriteFile, filepath.* uninterpreted (fresh results, errors unconstrained)",
	"crypto/sha256":      "uninterpreted; a hash made by sha256.New has digest size 32, Sum(b) is len(b) + digest size long, Sprintf(%x, bytes) is twice as long as the bytes",
	"unicode.IsUpper":    "for code points < 128: 'A' <= r <= 'Z'; otherwise unconstrained",
}

func libName(fn *ssa.Function) string {
	s := fn.String()
	if i := strings.Index(s, "["); i >= 0 {
		s = s[:i]
	}
	return s
}

func (x *Exec) libCall(st *State, fn *ssa.Function, args []Value, pos token.Pos, k cont) {
	name := libName(fn)
	x.libUsed[name] = true
	sig := fn.Signature
	T := func(i int) *Term { return x.mustTerm(args[i], name) }
	switch name {
	case "fmt.Sprintf":
		k(st, []Value{x.sprintf(st, args, pos)})
		return
	case "fmt.Errorf":
		k(st, []Value{Mk("err_mk", x.sprintf(st, args, pos))})
		return
	case "errors.New":
		k(st, []Value{Mk("err_mk", T(0))})
		return
	case "strings.Join":
		r := x.joinModel(args[0], T(1))
		if x.rootMentions("strings_Join") {
			// the contract of the function under verification talks about its Join calls: log them
			x.recordEvent(st, "strings_Join", args, []Value{r})
		}
		k(st, []Value{r})
		return
	case "strings.ReplaceAll":
		k(st, []Value{replaceAll(T(0), T(1), T(2))})
		return
	case "strings.HasPrefix":
		k(st, []Value{prefixOf(T(1), T(0))})
		return
	case "strings.HasSuffix":
		k(st, []Value{suffixOf(T(1), T(0))})
		return
	case "strings.Contains":
		k(st, []Value{App("str.contains", "Bool", T(0), T(1))})
		return
	case "strings.Count":
		k(st, []Value{strRangeFn("str_count", T(0), T(1))})
		return
	case "strings.LastIndex":
		k(st, []Value{strRangeFn("str_lastidx", T(0), T(1))})
		return
	case "strings.TrimSpace":
		k(st, []Value{trimSpace(T(0))})
		return
	case "strings.TrimLeft":
		k(st, []Value{trimLeft(T(0), T(1))})
		return
	case "strings.TrimSuffix":
		s, suf := T(0), T(1)
		k(st, []Value{Ite(suffixOf(suf, s), substr(s, IntT(0), Sub(StrLen(s), StrLen(suf))), s)})
		return
	case "strings.Split":
		s, sep := T(0), T(1)
		ss := x.w.sortOf(sig.Results().At(0).Type())
		r := App("split", ss, s, sep)
		st.assume(Cmp(">=", slLen(r), IntT(1)))
		st.assume(Not(slNil(r)))
		st.assume(Implies(Cmp(">", StrLen(sep), IntT(0)), Eq(Cmp(">", slLen(r), IntT(1)), App("str.contains", "Bool", s, sep))))
		k(st, []Value{r})
		return
	case "slices.Contains":
		k(st, []Value{x.sliceContains(x.mustTerm(args[0], name), T(1))})
		return
	case "slices.Clone":
		k(st, []Value{args[0]})
		return
	case "slices.Delete":
		k(st, []Value{x.slicesDelete(st, T(0), T(1), T(2), pos)})
		return
	case "slices.DeleteFunc":
		s := T(0)
		r := x.freshVar("deleted", s.Sort)
		st.assume(And(Cmp(">=", slLen(r), IntT(0)), Cmp("<=", slLen(r), slLen(s))))
		x.deleteFuncModel(st, s, r, args[1])
		if x.onDeleteFunc != nil {
			x.onDeleteFunc(st, s, r, args[1])
		}
		k(st, []Value{r})
		return
	case "maps.Clone":
		k(st, []Value{x.mapsClone(st, T(0), fn)})
		return
	case "maps.DeleteFunc":
		x.mapsDeleteFunc(st, T(0), fn, args[1])
		k(st, nil)
		return
	case "strconv.Itoa":
		k(st, []Value{itoaTerm(T(0))})
		return
	case "strconv.Atoi":
		s := T(0)
		v := App("itoa_inv", "Int", s) // the same function the contracts call atoi (inverse of itoa on its range)
		e := Ite(App("atoi_ok", "Bool", s), Mk("err_nil"), Mk("err_mk", App("atoi_err", "String", s)))
		k(st, []Value{v, e})
		return
	case "strconv.ParseBool":
		s := T(0)
		okv := Or(Eq(s, StrT("true")), Eq(s, StrT("false")), App("parsebool_ok", "Bool", s))
		v := Ite(Eq(s, StrT("true")), True, Ite(Eq(s, StrT("false")), False, App("parsebool_v", "Bool", s)))
		e := Ite(okv, Mk("err_nil"), Mk("err_mk", App("parsebool_err", "String", s)))
		k(st, []Value{v, e})
		return
	case "strconv.Unquote":
		s := T(0)
		v := App("unquote", "String", s)
		e := Ite(App("unquote_ok", "Bool", s), Mk("err_nil"), Mk("err_mk", App("unquote_err", "String", s)))
		k(st, []Value{v, e})
		return
	case "regexp.MustCompile":
		pat := T(0)
		if pat.Kind != KStr {
			x.outside = "regexp with non-constant pattern"
		}
		k(st, []Value{&RegexpV{pat: pat.S}})
		return
	case "(*regexp.Regexp).FindString", "(*regexp.Regexp).FindStringSubmatch", "(*regexp.Regexp).MatchString":
		re, ok := args[0].(*RegexpV)
		if !ok {
			x.outside = "regexp method on unknown receiver"
			k(st, x.havocResults(sig, "re"))
			return
		}
		k(st, []Value{x.regexpModel(st, re, name, T(1), sig)})
		return
	case "unicode.IsUpper":
		r := T(0)
		v := Ite(Cmp("<", r, IntT(128)), And(Cmp(">=", r, IntT('A')), Cmp("<=", r, IntT('Z'))), App("unicode_isupper", "Bool", r))
		k(st, []Value{v})
		return
	}
	// everything else: uninterpreted / fresh results
	pkg := ""
	if fn.Pkg != nil {
		pkg = fn.Pkg.Pkg.Path()
	} else if fn.Object() != nil && fn.Object().Pkg() != nil {
		pkg = fn.Object().Pkg().Path()
	}
	switch pkg {
	case "os", "path/filepath", "crypto/sha256", "strings", "strconv", "fmt", "errors", "unicode", "regexp", "slices", "maps", "hash":
		res := x.havocResults(sig, mangle(name))
		for i, r := range res {
			if t, ok := r.(*Term); ok {
				for _, f := range x.typeFacts(t, sig.Results().At(i).Type(), 0) {
					st.assume(f)
				}
			}
		}
		if x.pureMode {
			x.pureFail = "unmodelled library call " + name
		}
		if name == "path/filepath.Ext" && len(res) == 1 {
			// assumed library fact: the extension is a suffix of the path and of its last element
			if rt, ok := res[0].(*Term); ok {
				st.assume(App("str.suffixof", "Bool", rt, T(0)))
				st.assume(App("str.suffixof", "Bool", rt, App("filepath_base", "String", T(0))))
			}
		}
		if name == "crypto/sha256.New" && len(res) == 1 {
			if rt, ok := res[0].(*Term); ok && rt.Sort == "Opaque" {
				st.assume(Eq(App("hash_size", "Int", rt), IntT(32))) // sha256.Size
			}
		}
		if name == "path/filepath.Base" && len(res) == 1 {
			if rt, ok := res[0].(*Term); ok {
				st.assume(Eq(rt, App("filepath_base", "String", T(0))))
			}
		}
		if x.onLibCall != nil {
			x.onLibCall(st, name, args, res)
		}
		x.recordEvent(st, mangle(name), args, res)
		k(st, res)
		return
	}
	x.outside = "call to unmodelled function " + name
	k(st, x.havocResults(sig, "ext"))
}

type RegexpV struct{ pat string }

func replaceAll(s, a, b *Term) *Term {
	if s.Kind == KStr && a.Kind == KStr && b.Kind == KStr {
		return StrT(strings.ReplaceAll(s.S, a.S, b.S))
	}
	return App("str.replace_all", "String", s, a, b)
}

func prefixOf(p, s *Term) *Term {
	if p.Kind == KStr && s.Kind == KStr {
		return BoolT(strings.HasPrefix(s.S, p.S))
	}
	if p.Kind == KStr && s.Kind == KApp && s.Op == "str.++" && len(s.Args) > 0 && s.Args[0].Kind == KStr && len(s.Args[0].S) >= len(p.S) {
		return BoolT(strings.HasPrefix(s.Args[0].S, p.S))
	}
	if p.Kind == KStr && len(p.S) == 1 {
		// one-character prefix: same shape as the code's s[0] test
		return Eq(App("str.at", "String", s, IntT(0)), p)
	}
	return App("str.prefixof", "Bool", p, s)
}

func suffixOf(p, s *Term) *Term {
	if p.Kind == KStr && s.Kind == KStr {
		return BoolT(strings.HasSuffix(s.S, p.S))
	}
	if p.Kind == KStr && len(p.S) == 1 {
		return Eq(App("str.at", "String", s, Sub(StrLen(s), IntT(1))), p)
	}
	return App("str.suffixof", "Bool", p, s)
}

// strRangeFn: strings.Count / strings.LastIndex as an uninterpreted function of (underlying string,
// separator, lo, hi): s[a:b] is the range [a,b) of s, any other string the range [0,len).  The facts
// the function has are instantiated per term when a query is rendered (smt.go, strRangeAxioms).
func strRangeFn(op string, t, sep *Term) *Term {
	if t.Kind == KStr && sep.Kind == KStr {
		if op == "str_count" {
			return IntT(int64(strings.Count(t.S, sep.S)))
		}
		return IntT(int64(strings.LastIndex(t.S, sep.S)))
	}
	base, lo, hi := t, IntT(0), StrLen(t)
	if t.Kind == KApp && t.Op == "str.substr" && len(t.Args) == 3 {
		base, lo = t.Args[0], t.Args[1]
		n := t.Args[2]
		switch {
		case lo.Kind == KInt && lo.I == 0:
			hi = n
		case n.Kind == KApp && n.Op == "-" && len(n.Args) == 2 && sameTerm(n.Args[1], lo):
			hi = n.Args[0]
		default:
			hi = Add(lo, n)
		}
	}
	return App(op, "Int", base, sep, lo, hi)
}

func trimSpace(s *Term) *Term {
	if s.Kind == KStr {
		return StrT(strings.TrimSpace(s.S))
	}
	return App("trim_space", "String", s)
}

func trimLeft(s, cut *Term) *Term {
	if s.Kind == KStr && cut.Kind == KStr {
		return StrT(strings.TrimLeft(s.S, cut.S))
	}
	return App("trim_left", "String", s, cut)
}

// joinModel: strings.Join.  For slices of statically known length the result is
// the exact concatenation; otherwise an uninterpreted function of (slice, sep).
func (x *Exec) joinModel(sv Value, sep *Term) *Term {
	var elems []*Term
	known := false
	switch s := sv.(type) {
	case *ArrV:
		known = true
		for _, e := range s.elems {
			elems = append(elems, x.mustTerm(e, "join elem"))
		}
	case *Term:
		if n := slLen(s); n.Kind == KInt && n.I <= 32 {
			known = true
			for i := int64(0); i < n.I; i++ {
				elems = append(elems, Select(slArr(s), IntT(i), "String"))
			}
		}
	}
	if known {
		var parts []*Term
		for i, e := range elems {
			if i > 0 {
				parts = append(parts, sep)
			}
			parts = append(parts, e)
		}
		return Concat(parts...)
	}
	s := x.mustTerm(sv, "join")
	// the two base cases are exact; longer slices are the uninterpreted join
	return Ite(Cmp("<=", slLen(s), IntT(0)), StrT(""),
		Ite(Eq(slLen(s), IntT(1)), Select(slArr(s), IntT(0), "String"), App("join", "String", slArr(s), slLen(s), sep)))
}

func (x *Exec) slicesDelete(st *State, s, i, j *Term, pos token.Pos) *Term {
	x.oblige(st, "safety", "slices.Delete-bounds:"+x.srcAt(pos), []string{"C13"}, And(Cmp("<=", IntT(0), i), Cmp("<=", i, j), Cmp("<=", j, slLen(s))), pos)
	es := elemSortOfSlice(x.w, s.Sort)
	// common case: delete the last element
	if sameTerm(j, slLen(s)) {
		return mkSlice(s.Sort, slArr(s), i, slNil(s))
	}
	if sameTerm(Add(i, IntT(1)), j) && sameTerm(j, slLen(s)) {
		return mkSlice(s.Sort, slArr(s), i, slNil(s))
	}
	na := x.freshVar("del", arraySort(es))
	kq := VarT("k!q", "Int")
	d := Sub(j, i)
	body := And(
		Implies(And(Cmp("<=", IntT(0), kq), Cmp("<", kq, i)), Eq(App("select", es, na, kq), App("select", es, slArr(s), kq))),
		Implies(And(Cmp("<=", i, kq), Cmp("<", kq, Sub(slLen(s), d))), Eq(App("select", es, na, kq), App("select", es, slArr(s), Add(kq, d)))))
	st.assume(Quant("forall", []*Term{kq}, body))
	return mkSlice(s.Sort, na, Sub(slLen(s), d), slNil(s))
}

// closurePredTerm evaluates a closure of one argument, without effects, on the symbolic element
// arg and returns its (boolean) result as one term: the paths' results merged with ite.  ok is false
// when the closure is not a plain function of its argument and the captured values (effects, loops,
// unmodelled calls, quantified path facts).
func (x *Exec) closurePredTerm(cur *State, cv *ClosureV, arg *Term) (*Term, bool) {
	if cv == nil || cv.fn == nil || len(cv.fn.Params) != 1 || cv.fn.Signature.Results().Len() != 1 {
		return nil, false
	}
	sub := newExec(x.w, x.rootKey)
	sub.pureMode = true
	sub.maxPaths = 500
	sub.fresh = x.fresh + 1000
	sub.cellID = x.cellID + 1000
	sub.pureCellBase = sub.cellID
	sub.pureHeaps = map[string]*Term{}
	st := newState()
	for c, v := range cur.cells {
		st.cells[c] = v // captured variables are read through their cells
	}
	for cs, h := range cur.heaps {
		st.heaps[cs] = h
	}
	sub.runFunc(st, cv.fn, []Value{arg}, cv.binds, func(s2 *State, res []Value) {
		if len(res) != 1 {
			sub.pureFail = "result arity"
			return
		}
		t := sub.term(res[0])
		if t == nil {
			sub.pureFail = "non-term result"
			return
		}
		sub.pureRets = append(sub.pureRets, pureRet{pc: s2.pc.list(), val: t, vals: []*Term{t}})
	})
	x.fresh = sub.fresh
	if sub.pureFail != "" || sub.outside != "" || len(sub.pureHeaps) > 0 {
		return nil, false
	}
	var body *Term
	for i := len(sub.pureRets) - 1; i >= 0; i-- {
		r := sub.pureRets[i]
		for _, c := range r.pc {
			if hasQuant(c) {
				return nil, false
			}
		}
		if r.panics {
			continue // a panicking predicate: the caller's own safety obligations cover it, no fact is derived for such elements
		}
		if body == nil {
			body = r.val
		} else {
			body = Ite(And(r.pc...), r.val, body)
		}
	}
	if body == nil {
		return nil, false
	}
	for k := range sub.libUsed {
		x.libUsed[k] = true
	}
	return body, true
}

// deleteFuncModel: slices.DeleteFunc(s, pred) = r, for a predicate that can be evaluated
// symbolically: r is the subsequence of s, in order, of exactly the elements that fail pred.
func (x *Exec) deleteFuncModel(st *State, s, r *Term, pred Value) {
	cv, ok := pred.(*ClosureV)
	if !ok {
		return
	}
	es := elemSortOfSlice(x.w, s.Sort)
	e := x.freshVar("delelem", es)
	body, ok := x.closurePredTerm(st, cv, e)
	if !ok {
		return
	}
	P := func(t *Term) *Term { return subst(body, map[string]*Term{e.Op: t}) }
	x.fresh++
	idx := fmt.Sprintf("delidx!%d", x.fresh)
	inv := fmt.Sprintf("delinv!%d", x.fresh)
	j := VarT(fmt.Sprintf("j!q%d", x.fresh), "Int")
	j2 := VarT(fmt.Sprintf("j2!q%d", x.fresh), "Int")
	kk := VarT(fmt.Sprintf("k!q%d", x.fresh), "Int")
	sAt := func(i *Term) *Term { return App("select", es, slArr(s), i) }
	rAt := func(i *Term) *Term { return App("select", es, slArr(r), i) }
	idxOf := func(i *Term) *Term { return App(idx, "Int", i) }
	invOf := func(i *Term) *Term { return App(inv, "Int", i) }
	st.assume(Quant("forall", []*Term{j}, Implies(And(Cmp("<=", IntT(0), j), Cmp("<", j, slLen(r))),
		And(Cmp("<=", IntT(0), idxOf(j)), Cmp("<", idxOf(j), slLen(s)), Eq(rAt(j), sAt(idxOf(j))), Not(P(sAt(idxOf(j))))))))
	st.assume(Quant("forall", []*Term{j, j2}, Implies(And(Cmp("<=", IntT(0), j), Cmp("<", j, j2), Cmp("<", j2, slLen(r))), Cmp("<", idxOf(j), idxOf(j2)))))
	st.assume(Quant("forall", []*Term{kk}, Implies(And(Cmp("<=", IntT(0), kk), Cmp("<", kk, slLen(s)), Not(P(sAt(kk)))),
		And(Cmp("<=", IntT(0), invOf(kk)), Cmp("<", invOf(kk), slLen(r)), Eq(idxOf(invOf(kk)), kk), Eq(rAt(invOf(kk)), sAt(kk))))))
	st.assume(Eq(slNil(r), slNil(s)))
}

func (x *Exec) mapTypeOfFn(fn *ssa.Function, i int) *types.Map {
	m, _ := fn.Signature.Params().At(i).Type().Underlying().(*types.Map)
	return m
}

func (x *Exec) mapsClone(st *State, ref *Term, fn *ssa.Function) *Term {
	m := x.mapTypeOfFn(fn, 0)
	if m == nil {
		x.outside = "maps.Clone on non-map"
		return ref
	}
	if x.pureMode {
		x.pureFail = "maps.Clone"
	}
	cs, _, _ := mapSorts(x.w, m)
	h := x.heap(st, cs)
	nr := x.newRef(st)
	st.heaps[cs] = Store(h, nr, Select(h, ref, cs))
	return Ite(Eq(ref, IntT(0)), IntT(0), nr)
}

func (x *Exec) mapsDeleteFunc(st *State, ref *Term, fn *ssa.Function, pred Value) {
	m := x.mapTypeOfFn(fn, 0)
	if m == nil {
		x.outside = "maps.DeleteFunc on non-map"
		return
	}
	if x.pureMode {
		x.pureFail = "maps.DeleteFunc"
	}
	cs, ks, vs := mapSorts(x.w, m)
	h := x.heap(st, cs)
	oldc := Select(h, ref, cs)
	nh := x.freshVar("kept", "(Array "+ks+" Bool)")
	kq := VarT("k!q", ks)
	// kept implies previously present; if the predicate is a known closure without effects, kept iff present and !pred
	body := Implies(App("select", "Bool", nh, kq), App("select", "Bool", Sel(cs+"_has", oldc), kq))
	st.assume(Quant("forall", []*Term{kq}, body))
	if x.onMapDeleteFunc != nil {
		x.onMapDeleteFunc(st, oldc, nh, pred, cs, ks, vs)
	}
	st.heaps[cs] = Store(h, ref, Mk("mk_"+cs, nh, Sel(cs+"_val", oldc)))
}

func (x *Exec) regexpModel(st *State, re *RegexpV, method string, subject *Term, sig *types.Signature) Value {
	id := mangle(fmt.Sprintf("re_%x", hashString(re.pat)))
	if ch := semanticsOf(re.pat); ch.sem != nil {
		// the pattern agrees with one of the reference semantics on the whole corpus: exact model
		x.libUsed["regexp-semantics: "+ch.note] = true
		matched, groups := ch.sem.build(subject)
		switch {
		case strings.HasSuffix(method, "MatchString"):
			if ch.sem.kind == "match" {
				return matched
			}
			// an anchored pattern used with MatchString: matches iff it finds something
			return matched
		case strings.HasSuffix(method, "FindString") && ch.sem.kind == "submatch":
			return Ite(matched, groups[0], StrT(""))
		case ch.sem.kind == "submatch":
			ss := x.w.sortOf(sig.Results().At(0).Type())
			arr := x.w.constArray("String")
			for i, g := range groups {
				arr = Store(arr, IntT(int64(i)), g)
			}
			return Ite(matched, mkSlice(ss, arr, IntT(int64(len(groups))), False), x.w.zeroOfSort(ss, sig.Results().At(0).Type()))
		}
	}
	switch {
	case strings.HasSuffix(method, "MatchString"):
		m := App(id+"_match", "Bool", subject)
		if rx, err := regexp.Compile(re.pat); err == nil && !rx.MatchString("") {
			// decided with the real regexp engine on the constant pattern: it does not match the empty string
			st.assume(Implies(m, Cmp(">", StrLen(subject), IntT(0))))
		}
		return m
	case strings.HasSuffix(method, "FindString"):
		r := App(id+"_find", "String", subject)
		if strings.HasPrefix(re.pat, "^") {
			st.assume(App("str.prefixof", "Bool", r, subject))
		} else {
			st.assume(App("str.contains", "Bool", subject, r))
		}
		if c := firstLiteralOf(re.pat); c != "" {
			// read off the pattern's syntax tree: it begins (after the anchor) with a literal character,
			// so whatever it finds begins with that character
			st.assume(Or(Eq(r, StrT("")), App("str.prefixof", "Bool", StrT(c), r)))
		}
		return r
	default: // FindStringSubmatch
		ss := x.w.sortOf(sig.Results().At(0).Type())
		r := App(id+"_submatch", ss, subject)
		groups := int64(strings.Count(strings.ReplaceAll(re.pat, `\(`, ""), "(") - strings.Count(re.pat, "(?"))
		st.assume(Implies(Not(slNil(r)), Eq(slLen(r), IntT(1+groups))))
		st.assume(Implies(slNil(r), Eq(slLen(r), IntT(0))))
		m0 := Select(slArr(r), IntT(0), "String")
		if strings.HasPrefix(re.pat, "^") || strings.HasPrefix(re.pat, "(?s)^") {
			st.assume(Implies(Not(slNil(r)), App("str.prefixof", "Bool", m0, subject)))
		}
		return r
	}
}

// firstLiteralOf: the ASCII character every non-empty match of an anchored pattern begins with, if
// the pattern's syntax tree (regexp/syntax) is a concatenation that starts, after ^, with a literal.
func firstLiteralOf(pat string) string {
	re, err := syntax.Parse(pat, syntax.Perl)
	if err != nil {
		return ""
	}
	re = re.Simplify()
	if re.Op != syntax.OpConcat || len(re.Sub) < 2 {
		return ""
	}
	if re.Sub[0].Op != syntax.OpBeginText && re.Sub[0].Op != syntax.OpBeginLine {
		return ""
	}
	lit := re.Sub[1]
	if lit.Op != syntax.OpLiteral || len(lit.Rune) == 0 || lit.Rune[0] >= 128 || lit.Flags&syntax.FoldCase != 0 {
		return ""
	}
	return string(rune(lit.Rune[0]))
}

func hashString(s string) uint32 {
	var h uint32 = 2166136261
	for i := 0; i < len(s); i++ {
		h ^= uint32(s[i])
		h *= 16777619
	}
	return h
}

// sprintf models fmt.Sprintf / fmt.Errorf with a constant format string.
func (x *Exec) sprintf(st *State, args []Value, pos token.Pos) *Term {
	ft := x.term(args[0])
	if ft == nil || ft.Kind != KStr {
		x.outside = "Sprintf with non-constant format"
		return x.freshVar("sprintf", "String")
	}
	var vals []Value
	if len(args) > 1 {
		switch a := args[1].(type) {
		case *ArrV:
			vals = a.elems
		case nil:
		case *Term:
			if n := slLen(a); n.Kind == KInt && n.I == 0 {
				break
			}
			x.outside = "Sprintf with symbolic argument list"
			return x.freshVar("sprintf", "String")
		default:
			x.outside = "Sprintf with symbolic argument list"
			return x.freshVar("sprintf", "String")
		}
	}
	f := ft.S
	var parts []*Term
	ai := 0
	lit := strings.Builder{}
	flush := func() {
		if lit.Len() > 0 {
			parts = append(parts, StrT(lit.String()))
			lit.Reset()
		}
	}
	for i := 0; i < len(f); i++ {
		if f[i] != '%' {
			lit.WriteByte(f[i])
			continue
		}
		i++
		if i >= len(f) {
			break
		}
		if f[i] == '%' {
			lit.WriteByte('%')
			continue
		}
		if ai >= len(vals) {
			x.outside = "Sprintf: missing argument"
			return x.freshVar("sprintf", "String")
		}
		v := vals[ai]
		ai++
		var typ types.Type
		if av, ok := v.(*AnyV); ok {
			v = av.v
			typ = av.typ
		}
		flush()
		t := x.term(v)
		switch f[i] {
		case 's', 'v':
			switch {
			case t != nil && t.Sort == "String":
				parts = append(parts, t)
			case t != nil && t.Sort == "Int" && f[i] == 'v':
				parts = append(parts, itoaTerm(t))
			case t != nil && t.Sort == "Err":
				parts = append(parts, Ite(Is("err_nil", t), StrT("%!s(<nil>)"), Sel("err_msg", t)))
			case t != nil && typ != nil:
				parts = append(parts, App("fmt_v_"+mangle(t.Sort), "String", t))
			default:
				parts = append(parts, x.freshVar("fmtv", "String"))
			}
		case 'd':
			if t != nil && t.Sort == "Int" {
				parts = append(parts, itoaTerm(t))
			} else {
				parts = append(parts, x.freshVar("fmtd", "String"))
			}
		case 'x':
			if t != nil {
				r := App("fmt_x_"+mangle(t.Sort), "String", t)
				if strings.HasPrefix(t.Sort, "Sl_") {
					st.assume(Eq(StrLen(r), Mul(IntT(2), slLen(t))))
				}
				parts = append(parts, r)
			} else {
				parts = append(parts, x.freshVar("fmtx", "String"))
			}
		default:
			x.outside = "Sprintf verb %" + string(f[i])
			return x.freshVar("sprintf", "String")
		}
	}
	flush()
	return Concat(parts...)
}

// rootMentions: does the contract of the function under verification mention this name?
func (x *Exec) rootMentions(name string) bool {
	fc := x.rootFC
	if fc == nil {
		return false
	}
	if x.rootNames == nil {
		x.rootNames = map[string]bool{}
		add := func(cs []*Clause) {
			for _, c := range cs {
				for _, n := range []string{"strings_Join"} {
					if strings.Contains(c.Text, n) {
						x.rootNames[n] = true
					}
				}
			}
		}
		add(fc.Requires)
		add(fc.Ensures)
		for _, cs := range fc.Loops {
			add(cs)
		}
	}
	return x.rootNames[name]
}
