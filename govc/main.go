package main

import (
	"flag"
	"fmt"
	"os"
	"sort"
	"strings"
	"time"

	"golang.org/x/tools/go/ssa"
)

func main() {
	if len(os.Args) < 2 {
		fmt.Println("usage: govc sweep|check|dump ...")
		os.Exit(2)
	}
	switch os.Args[1] {
	case "sweep":
		cmdSweep(os.Args[2:])
	case "dump":
		cmdDump(os.Args[2:])
	case "check":
		cmdCheck(os.Args[2:])
	case "loopkeys":
		cmdLoopKeys(os.Args[2:])
	case "ledger":
		cmdLedger(os.Args[2:])
	case "replay":
		cmdReplay(os.Args[2:])
	default:
		fmt.Println("unknown command")
		os.Exit(2)
	}
}

func mustWorld(repo string) *World {
	w, err := loadWorld(repo)
	if err != nil {
		fmt.Println("ERROR loading:", err)
		os.Exit(3)
	}
	if err := w.loadContracts(repo); err != nil {
		fmt.Println("ERROR contracts:", err)
		os.Exit(3)
	}
	return w
}

func (w *World) findFuncs(pat string) []*ssa.Function {
	var out []*ssa.Function
	for _, f := range w.allRepoFuncs() {
		k := funcKey(f)
		if pat == "" || strings.Contains(k, pat) {
			out = append(out, f)
		}
	}
	sort.Slice(out, func(i, j int) bool { return funcKey(out[i]) < funcKey(out[j]) })
	return out
}

func cmdDump(args []string) {
	fs := flag.NewFlagSet("dump", flag.ExitOnError)
	repo := fs.String("repo", "/repo", "")
	fn := fs.String("func", "", "")
	fs.Parse(args)
	w := mustWorld(*repo)
	for _, f := range w.findFuncs(*fn) {
		f.WriteTo(os.Stdout)
	}
}

func cmdSweep(args []string) {
	fs := flag.NewFlagSet("sweep", flag.ExitOnError)
	repo := fs.String("repo", "/repo", "")
	fn := fs.String("func", "", "substring of function key")
	tmo := fs.Int("timeout", 10, "")
	verbose := fs.Bool("v", false, "")
	keep := fs.String("keep", "", "directory for SMT files")
	fs.Parse(args)
	t0 := time.Now()
	w := mustWorld(*repo)
	fmt.Printf("loaded in %.1fs\n", time.Since(t0).Seconds())
	dir := *keep
	if dir == "" {
		dir, _ = os.MkdirTemp("", "govc")
		defer os.RemoveAll(dir)
	} else {
		os.MkdirAll(dir, 0755)
	}
	var all []*Obl
	for _, f := range w.findFuncs(*fn) {
		if strings.HasPrefix(f.Name(), "spec") || strings.HasPrefix(f.Name(), "init") {
			continue
		}
		if w.checkedInContext(f) {
			continue
		}
		fmt.Fprintf(os.Stderr, "verifying %s\n", funcKey(f))
		tf := time.Now()
		r := w.verifyFunc(f)
		if d := time.Since(tf).Seconds(); d > 2 {
			fmt.Printf("   (%.1fs) ", d)
		}
		fmt.Printf("%-60s paths=%d obls=%d returns=%d %s\n", r.Key, r.Paths, len(r.Obls), r.Returns, r.Outside)
		for _, n := range r.Notes {
			fmt.Println("    note:", n)
		}
		all = append(all, r.Obls...)
	}
	t1 := time.Now()
	w.solveAll(all, SolveOpts{Timeout: *tmo, Dir: dir, Parallel: 16})
	fmt.Printf("solved %d obligations in %.1fs\n", len(all), time.Since(t1).Seconds())
	byName := map[string][]*Obl{}
	for _, o := range all {
		byName[o.Name] = append(byName[o.Name], o)
	}
	names := make([]string, 0, len(byName))
	for n := range byName {
		names = append(names, n)
	}
	sort.Strings(names)
	bad := 0
	for _, n := range names {
		st := "unsat"
		var worst *Obl
		for _, o := range byName[n] {
			if o.Status != "unsat" {
				st = o.Status
				worst = o
			}
		}
		if st != "unsat" {
			bad++
			fmt.Printf("  FAIL %-8s %s [%s] (%d inst) %s %s\n", st, n, worst.Pos, len(byName[n]), worst.Solver, worst.Text)
			if *verbose && worst.Model != "" {
				fmt.Println(worst.Model)
			}
		} else if *verbose {
			fmt.Printf("  ok   %s (%d inst)\n", n, len(byName[n]))
		}
	}
	fmt.Printf("%d named obligations, %d not discharged\n", len(names), bad)
}


// cmdLoopKeys prints, for every function that has loop clauses given by ordinal, the header-text
// key of each of its loops (`text` or `text#k`), for rewriting the clauses to the stable form.
func cmdLoopKeys(args []string) {
	fs := flag.NewFlagSet("loopkeys", flag.ExitOnError)
	repo := fs.String("repo", "/repo", "")
	fs.Parse(args)
	w := mustWorld(*repo)
	for _, f := range w.findFuncs("") {
		fc := w.contracts[funcKey(f)]
		if fc == nil || len(fc.Loops) == 0 {
			continue
		}
		heads, pos := loopHeaderTexts(f)
		if heads == nil {
			fmt.Printf("%s\tUNMAPPED\n", funcKey(f))
			continue
		}
		for i, h := range heads {
			// rank among equal headers in source order
			same, rank := 0, 0
			for j, h2 := range heads {
				if h2 == h {
					same++
					if pos[j] < pos[i] {
						rank++
					}
				}
			}
			key := h
			if same > 1 {
				key = fmt.Sprintf("%s#%d", h, rank+1)
			} else {
				// an exact key must not be shadowed by being a substring of nothing else: exact match wins anyway
			}
			fmt.Printf("%s\t%d\t%s\n", funcKey(f), i+1, key)
		}
	}
}
