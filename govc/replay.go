package main

// Replay of counterexamples against the real code.
//
// For a failed postcondition with a model, the inputs of the function under
// contract (parameters, receiver state) are read out of the model, the REAL
// function is run on them through `go test -overlay` (an in-package test is
// injected, nothing is written into /repo), and the query is re-checked with the
// inputs AND the observed real outputs pinned: if it is still satisfiable the
// real execution violates the clause ("confirmed").

import (
	"bytes"
	"context"
	"encoding/json"
	"fmt"
	"go/types"
	"os"
	"os/exec"
	"path/filepath"
	"regexp"
	"sort"
	"strconv"
	"strings"
	"time"

	"golang.org/x/tools/go/ssa"
)

type NamedTerm struct {
	Name string
	T    *Term
	Typ  types.Type
}

type ReplayInfo struct {
	Fn     *ssa.Function
	Inputs []NamedTerm // parameters (receiver pointee for pointer receivers)
	Obs    []NamedTerm // results and receiver post-state
}

func (w *World) tryReplay(r *NamedResult, o *Obl) (string, string) {
	if o == nil || (o.Status != "sat" && !o.forceReplay) {
		return "no-model", "the solver returned no model (unknown/timeout or quantified goal)"
	}
	if o.Replay == nil {
		return "not-replayable", "obligation kind carries no function-level replay information"
	}
	outcome, log := w.replay(o)
	return outcome, log
}

// ---- type support -------------------------------------------------------

func replayableType(w *World, t types.Type, depth int) bool {
	if depth > 4 {
		return false
	}
	switch u := t.Underlying().(type) {
	case *types.Basic:
		return u.Info()&(types.IsInteger|types.IsString|types.IsBoolean) != 0
	case *types.Slice:
		return replayableType(w, u.Elem(), depth+1)
	case *types.Struct:
		for i := 0; i < u.NumFields(); i++ {
			if !replayableType(w, u.Field(i).Type(), depth+1) {
				return false
			}
		}
		return true
	case *types.Pointer:
		if _, ok := u.Elem().Underlying().(*types.Struct); ok && isHandleType(u.Elem()) {
			return replayableType(w, u.Elem(), depth+1)
		}
	case *types.Interface:
		return types.IsInterface(t) && t.String() == "error"
	}
	return false
}

// leafQueries enumerates the scalar leaves of a value of Go type t held in term tm.
type leaf struct {
	path string
	t    *Term
}

var crlfNormRe = regexp.MustCompile(`\(str\.replace_all ([A-Za-z_][A-Za-z0-9_!.]*) "\\u\{d\}\\u\{a\}" "\\u\{a\}"\)`)

// absCRLF: see its use in replay.
func absCRLF(q string) string {
	vars := map[string]bool{}
	for _, m := range crlfNormRe.FindAllStringSubmatch(q, -1) {
		vars[m[1]] = true
	}
	if len(vars) == 0 {
		return q
	}
	q = crlfNormRe.ReplaceAllString(q, "$1")
	var extra strings.Builder
	for v := range vars {
		fmt.Fprintf(&extra, "(assert (not (str.contains %s \"\\u{d}\\u{a}\")))\n", v)
	}
	return strings.Replace(q, "(check-sat)\n", extra.String()+"(check-sat)\n", 1)
}

// ---- solver interaction ---------------------------------------------------

var getValueRe = regexp.MustCompile(`^\(\((.*)\)\)$`)

func (w *World) getValues(queryText string, terms []*Term) (map[string]string, error) {
	solver := w.replaySolver
	if solver == "" {
		solver = "z3-new"
	}
	if len(terms) == 0 {
		return map[string]string{}, nil
	}
	var b strings.Builder
	b.WriteString("(set-option :produce-models true)\n")
	body := strings.Replace(queryText, "(check-sat)\n", "", 1)
	b.WriteString(body)
	for _, t := range terms {
		fv := map[string]string{}
		collectVars(t, fv)
		for _, name := range sortedKeys(fv) {
			if !strings.Contains(body, "(declare-const "+name+" ") && !strings.Contains(b.String(), "(declare-const "+name+" ") {
				b.WriteString("(declare-const " + name + " " + fv[name] + ")\n")
			}
		}
	}
	b.WriteString("(check-sat)\n")
	for _, t := range terms {
		b.WriteString("(get-value (" + t.String() + "))\n")
	}
	dir, _ := os.MkdirTemp("", "govc-replay")
	defer os.RemoveAll(dir)
	f := filepath.Join(dir, "q.smt2")
	os.WriteFile(f, []byte(b.String()), 0644)
	if dbg := os.Getenv("GOVC_DEBUG_REPLAY"); dbg != "" {
		os.WriteFile(dbg, []byte(b.String()), 0644)
	}
	ctx, cancel := context.WithTimeout(context.Background(), 30*time.Second)
	defer cancel()
	var cmd *exec.Cmd
	switch solver {
	case "cvc5":
		cmd = exec.CommandContext(ctx, "cvc5", "--strings-exp", "--dt-nested-rec", "--tlimit=25000", f)
	case "z3":
		cmd = exec.CommandContext(ctx, "z3", "-T:25", f)
	default:
		cmd = exec.CommandContext(ctx, "z3-new", "-T:25", f)
	}
	var out bytes.Buffer
	cmd.Stdout = &out
	cmd.Run()
	lines := splitSexprs(out.String())
	if len(lines) == 0 || strings.TrimSpace(lines[0]) != "sat" {
		first := ""
		if len(lines) > 0 {
			first = lines[0]
		}
		return nil, fmt.Errorf("solver answered %q when asked for values", first)
	}
	res := map[string]string{}
	for i, t := range terms {
		if i+1 >= len(lines) {
			break
		}
		s := strings.TrimSpace(lines[i+1])
		if strings.HasPrefix(s, "(error") {
			// the symbol does not occur in the query: any value will do
			switch t.Sort {
			case "Int":
				res[t.String()] = "0"
			case "Bool":
				res[t.String()] = "false"
			case "String":
				res[t.String()] = "\"\""
			}
			continue
		}
		// ((term value))
		s = strings.TrimPrefix(s, "((")
		s = strings.TrimSuffix(s, "))")
		key := t.String()
		if strings.HasPrefix(s, key) {
			res[key] = strings.TrimSpace(s[len(key):])
		} else if idx := lastTopLevelSplit(s); idx > 0 {
			res[key] = strings.TrimSpace(s[idx:])
		}
	}
	return res, nil
}

// splitSexprs splits solver output into top-level s-expressions / atoms.
func splitSexprs(s string) []string {
	var out []string
	depth := 0
	inStr := false
	start := -1
	for i := 0; i < len(s); i++ {
		c := s[i]
		if inStr {
			if c == '"' {
				if i+1 < len(s) && s[i+1] == '"' {
					i++
					continue
				}
				inStr = false
			}
			continue
		}
		switch c {
		case '"':
			inStr = true
			if start < 0 {
				start = i
			}
		case '(':
			if depth == 0 && start < 0 {
				start = i
			}
			depth++
		case ')':
			depth--
			if depth == 0 && start >= 0 {
				out = append(out, s[start:i+1])
				start = -1
			}
		case '\n', ' ', '\t', '\r':
			if depth == 0 && start >= 0 {
				out = append(out, s[start:i])
				start = -1
			}
		default:
			if start < 0 {
				start = i
			}
		}
	}
	if start >= 0 {
		out = append(out, s[start:])
	}
	return out
}

func lastTopLevelSplit(s string) int {
	depth := 0
	inStr := false
	last := -1
	for i := 0; i < len(s); i++ {
		c := s[i]
		if inStr {
			if c == '"' {
				inStr = false
			}
			continue
		}
		switch c {
		case '"':
			inStr = true
			if depth == 0 {
				last = i
			}
		case '(':
			if depth == 0 {
				last = i
			}
			depth++
		case ')':
			depth--
		case ' ':
		default:
			if depth == 0 && (i == 0 || s[i-1] == ' ') {
				last = i
			}
		}
	}
	return last
}

func parseSMTString(s string) (string, bool) {
	if len(s) < 2 || s[0] != '"' || s[len(s)-1] != '"' {
		return "", false
	}
	body := strings.ReplaceAll(s[1:len(s)-1], `""`, `"`)
	var out []byte
	for i := 0; i < len(body); i++ {
		if strings.HasPrefix(body[i:], `\u{`) {
			j := strings.Index(body[i:], "}")
			if j > 0 {
				code, err := strconv.ParseInt(body[i+3:i+j], 16, 32)
				if err == nil {
					if code < 256 {
						out = append(out, byte(code))
					} else {
						out = append(out, []byte(string(rune(code)))...)
					}
					i += j
					continue
				}
			}
		}
		out = append(out, body[i])
	}
	return string(out), true
}

func parseSMTInt(s string) (int64, bool) {
	s = strings.TrimSpace(s)
	if strings.HasPrefix(s, "(-") {
		v, err := strconv.ParseInt(strings.TrimSpace(strings.TrimSuffix(strings.TrimPrefix(s, "(-"), ")")), 10, 64)
		return -v, err == nil
	}
	v, err := strconv.ParseInt(s, 10, 64)
	return v, err == nil
}

// extract reads the value of term tm (Go type t) out of a model.  All scalar
// leaves and slice lengths are fetched in one solver call, pinned, and slice
// elements are fetched in following rounds, so that the values are consistent.
func (w *World) extract(queryText string, tm *Term, t types.Type, depth int) (interface{}, error) {
	known := map[string]string{}
	query := queryText
	for round := 0; round < 5; round++ {
		var need []*Term
		w.collectLeaves(tm, t, known, &need)
		if len(need) == 0 {
			break
		}
		vals, err := w.getValues(query, need)
		if err != nil {
			return nil, err
		}
		var pins strings.Builder
		for _, n := range need {
			v, ok := vals[n.String()]
			if !ok {
				return nil, fmt.Errorf("no value for %s", n.String())
			}
			known[n.String()] = v
			pins.WriteString("(assert (= " + n.String() + " " + v + "))\n")
		}
		query = strings.Replace(query, "(check-sat)\n", pins.String()+"(check-sat)\n", 1)
	}
	return w.buildValue(tm, t, known)
}

func (w *World) collectLeaves(tm *Term, t types.Type, known map[string]string, need *[]*Term) {
	ask := func(x *Term) bool {
		if _, ok := known[x.String()]; ok {
			return true
		}
		*need = append(*need, x)
		return false
	}
	switch u := t.Underlying().(type) {
	case *types.Basic:
		ask(tm)
	case *types.Struct:
		d := w.dts[tm.Sort]
		if d == nil {
			return
		}
		for i := 0; i < u.NumFields(); i++ {
			w.collectLeaves(Sel(d.Ctors[0].Sels[i], tm), u.Field(i).Type(), known, need)
		}
	case *types.Slice:
		a := ask(slLen(tm))
		b := ask(slNil(tm))
		if !a || !b {
			return
		}
		n, ok := parseSMTInt(known[slLen(tm).String()])
		if !ok || n < 0 || n > 12 {
			return
		}
		es := elemSortOfSlice(w, tm.Sort)
		for i := int64(0); i < n; i++ {
			w.collectLeaves(Select(slArr(tm), IntT(i), es), u.Elem(), known, need)
		}
	}
}

func (w *World) buildValue(tm *Term, t types.Type, known map[string]string) (interface{}, error) {
	switch u := t.Underlying().(type) {
	case *types.Basic:
		v := known[tm.String()]
		switch {
		case u.Info()&types.IsString != 0:
			s, ok := parseSMTString(v)
			if !ok {
				return nil, fmt.Errorf("cannot parse string value %q", v)
			}
			return s, nil
		case u.Info()&types.IsBoolean != 0:
			return v == "true", nil
		default:
			i, ok := parseSMTInt(v)
			if !ok {
				return nil, fmt.Errorf("cannot parse int value %q", v)
			}
			return i, nil
		}
	case *types.Struct:
		d := w.dts[tm.Sort]
		if d == nil {
			return nil, fmt.Errorf("no datatype for %s", tm.Sort)
		}
		m := map[string]interface{}{}
		for i := 0; i < u.NumFields(); i++ {
			v, err := w.buildValue(Sel(d.Ctors[0].Sels[i], tm), u.Field(i).Type(), known)
			if err != nil {
				return nil, err
			}
			m[u.Field(i).Name()] = v
		}
		return m, nil
	case *types.Slice:
		n, ok := parseSMTInt(known[slLen(tm).String()])
		if !ok || n < 0 || n > 12 {
			return nil, fmt.Errorf("slice length %v outside the replay limit", known[slLen(tm).String()])
		}
		if known[slNil(tm).String()] == "true" && n == 0 {
			return nil, nil
		}
		es := elemSortOfSlice(w, tm.Sort)
		out := []interface{}{}
		for i := int64(0); i < n; i++ {
			v, err := w.buildValue(Select(slArr(tm), IntT(i), es), u.Elem(), known)
			if err != nil {
				return nil, err
			}
			out = append(out, v)
		}
		return out, nil
	}
	return nil, fmt.Errorf("type %s is not replayable", t)
}

// termOfJSON converts an observed Go value (decoded JSON) into a ground term of the sort of t.
func (w *World) termOfJSON(v interface{}, t types.Type) (*Term, error) {
	switch u := t.Underlying().(type) {
	case *types.Basic:
		switch {
		case u.Info()&types.IsString != 0:
			s, _ := v.(string)
			return StrT(s), nil
		case u.Info()&types.IsBoolean != 0:
			b, _ := v.(bool)
			return BoolT(b), nil
		default:
			switch n := v.(type) {
			case float64:
				return IntT(int64(n)), nil
			case int64:
				return IntT(n), nil
			case int:
				return IntT(int64(n)), nil
			}
			return IntT(0), nil
		}
	case *types.Struct:
		m, _ := v.(map[string]interface{})
		s := w.sortOf(t)
		d := w.dts[s]
		var args []*Term
		for i := 0; i < u.NumFields(); i++ {
			a, err := w.termOfJSON(m[u.Field(i).Name()], u.Field(i).Type())
			if err != nil {
				return nil, err
			}
			args = append(args, a)
		}
		return Mk(d.Ctors[0].Name, args...), nil
	case *types.Slice:
		ss := w.sortOf(t)
		es := elemSortOfSlice(w, ss)
		arr := w.constArray(es)
		l, _ := v.([]interface{})
		for i, e := range l {
			et, err := w.termOfJSON(e, u.Elem())
			if err != nil {
				return nil, err
			}
			arr = Store(arr, IntT(int64(i)), et)
		}
		return mkSlice(ss, arr, IntT(int64(len(l))), BoolT(v == nil)), nil
	case *types.Interface:
		// error: nil or message
		if v == nil {
			return Mk("err_nil"), nil
		}
		s, _ := v.(string)
		return Mk("err_mk", StrT(s)), nil
	}
	return nil, fmt.Errorf("cannot convert observed value of type %s", t)
}

// ---- the harness --------------------------------------------------------

const harnessHelpers = `
func rpBuild(v reflect.Value, spec interface{}) {
	if !v.CanSet() {
		v = reflect.NewAt(v.Type(), unsafe.Pointer(v.UnsafeAddr())).Elem()
	}
	switch v.Kind() {
	case reflect.String:
		s, _ := spec.(string)
		v.SetString(s)
	case reflect.Bool:
		b, _ := spec.(bool)
		v.SetBool(b)
	case reflect.Int, reflect.Int8, reflect.Int16, reflect.Int32, reflect.Int64:
		f, _ := spec.(float64)
		v.SetInt(int64(f))
	case reflect.Uint, reflect.Uint8, reflect.Uint16, reflect.Uint32, reflect.Uint64:
		f, _ := spec.(float64)
		v.SetUint(uint64(f))
	case reflect.Slice:
		if spec == nil {
			return
		}
		l, _ := spec.([]interface{})
		s := reflect.MakeSlice(v.Type(), len(l), len(l))
		for i := range l {
			rpBuild(s.Index(i), l[i])
		}
		v.Set(s)
	case reflect.Struct:
		m, _ := spec.(map[string]interface{})
		for i := 0; i < v.NumField(); i++ {
			if fv, ok := m[v.Type().Field(i).Name]; ok {
				rpBuild(v.Field(i), fv)
			}
		}
	}
}

func rpDump(v reflect.Value) interface{} {
	if v.Kind() == reflect.Interface || v.Kind() == reflect.Ptr {
		if v.IsNil() {
			return nil
		}
		if e, ok := v.Interface().(error); ok {
			return e.Error()
		}
		return rpDump(v.Elem())
	}
	if !v.CanInterface() && v.CanAddr() {
		v = reflect.NewAt(v.Type(), unsafe.Pointer(v.UnsafeAddr())).Elem()
	}
	switch v.Kind() {
	case reflect.String:
		return v.String()
	case reflect.Bool:
		return v.Bool()
	case reflect.Int, reflect.Int8, reflect.Int16, reflect.Int32, reflect.Int64:
		return v.Int()
	case reflect.Uint, reflect.Uint8, reflect.Uint16, reflect.Uint32, reflect.Uint64:
		return v.Uint()
	case reflect.Slice:
		if v.IsNil() {
			return nil
		}
		out := []interface{}{}
		for i := 0; i < v.Len(); i++ {
			out = append(out, rpDump(v.Index(i)))
		}
		return out
	case reflect.Struct:
		m := map[string]interface{}{}
		cp := reflect.New(v.Type()).Elem()
		cp.Set(v)
		for i := 0; i < cp.NumField(); i++ {
			m[cp.Type().Field(i).Name] = rpDump(cp.Field(i))
		}
		return m
	}
	return nil
}
`

func qualifiedType(t types.Type, pkg *types.Package) string {
	return types.TypeString(t, func(p *types.Package) string {
		if p == pkg {
			return ""
		}
		return p.Name()
	})
}

func (w *World) replay(o *Obl) (string, string) {
	ri := o.Replay
	fn := ri.Fn
	var log strings.Builder
	if fn.Pkg == nil {
		return "not-replayable", "function has no package"
	}
	for _, in := range ri.Inputs {
		if in.T == nil || !replayableType(w, in.Typ, 0) {
			return "not-replayable", fmt.Sprintf("input %s has type %s (AST node / map / function values cannot be built from a model)", in.Name, in.Typ)
		}
	}
	for _, ob := range ri.Obs {
		if !replayableType(w, ob.Typ, 0) {
			return "not-replayable", fmt.Sprintf("observable %s has type %s", ob.Name, ob.Typ)
		}
	}
	if o.Text == "" {
		return "not-replayable", "query text not available"
	}
	qdata, err := os.ReadFile(o.Text)
	if err != nil {
		return "not-replayable", "query file gone"
	}
	query := string(qdata)
	fullQuery := query
	// model search uses a relaxed, quantifier-free version of the assumptions (bounded
	// instantiation); the final confirmation below uses the full query again
	relaxed := &Obl{Goal: o.Goal}
	for _, a := range o.Assumes {
		relaxed.Assumes = append(relaxed.Assumes, relaxQuant(a, 0)...)
	}
	query = w.renderQuery(relaxed, false)
	// the search looks for an input without CRLF line ends: for such an input the lexer's normalisation
	// str.replace_all(x, "\r\n", "\n") is the identity, which spares the solvers the heaviest string
	// function of these queries (the input that is found is run on the real code anyway)
	query = absCRLF(query)
	fullQuery = absCRLF(fullQuery)
	// 1. inputs from the model (slice lengths capped by an extra constraint)
	inputs := map[string]interface{}{}
	w.replaySolver = "z3-new"
	// bound the sizes so that a small model is found
	var bounds strings.Builder
	for _, in := range ri.Inputs {
		w.sizeBounds(in.T, in.Typ, 0, &bounds)
	}
	query = strings.Replace(query, "(check-sat)\n", bounds.String()+"(check-sat)\n", 1)
	known := map[string]string{}
	pinned := query
	for round := 0; round < 6; round++ {
		var need []*Term
		for _, in := range ri.Inputs {
			typ := in.Typ
			if p, ok := typ.Underlying().(*types.Pointer); ok {
				typ = p.Elem()
			}
			w.collectLeaves(in.T, typ, known, &need)
		}
		if len(need) == 0 {
			break
		}
		vals, err := w.getValues(pinned, need)
		if err != nil {
			return "not-replayable", "model extraction: " + err.Error()
		}
		var pins strings.Builder
		for _, n := range need {
			v, ok := vals[n.String()]
			if !ok {
				return "not-replayable", "model extraction: no value for " + n.String()
			}
			known[n.String()] = v
			if n.Kind == KVar && !strings.Contains(pinned, "(declare-const "+n.Op+" ") {
				continue // the symbol does not occur in the query
			}
			pins.WriteString("(assert (= " + n.String() + " " + v + "))\n")
		}
		pinned = strings.Replace(pinned, "(check-sat)\n", pins.String()+"(check-sat)\n", 1)
	}
	for _, in := range ri.Inputs {
		typ := in.Typ
		if p, ok := typ.Underlying().(*types.Pointer); ok {
			typ = p.Elem()
		}
		v, err := w.buildValue(in.T, typ, known)
		if err != nil {
			return "not-replayable", "model extraction: " + err.Error()
		}
		inputs[in.Name] = v
	}
	ij, _ := json.Marshal(inputs)
	fmt.Fprintf(&log, "inputs from model: %s\n", ij)
	// 2. generate and run the in-package test
	pkg := fn.Pkg.Pkg
	var src strings.Builder
	imports := map[string]bool{}
	var decl, callArgs []string
	recvName := ""
	for i, p := range fn.Params {
		ts := qualifiedType(p.Type(), pkg)
		noteImports(p.Type(), pkg, imports)
		name := fmt.Sprintf("a%d", i)
		if i == 0 && fn.Signature.Recv() != nil {
			recvName = name
			if pt, ok := p.Type().(*types.Pointer); ok {
				decl = append(decl, fmt.Sprintf("\t%s := new(%s)\n\trpBuild(reflect.ValueOf(%s).Elem(), in[%q])", name, qualifiedType(pt.Elem(), pkg), name, p.Name()))
			} else {
				decl = append(decl, fmt.Sprintf("\tvar %s %s\n\trpBuild(reflect.ValueOf(&%s).Elem(), in[%q])", name, ts, name, p.Name()))
			}
			continue
		}
		decl = append(decl, fmt.Sprintf("\tvar %s %s\n\trpBuild(reflect.ValueOf(&%s).Elem(), in[%q])", name, ts, name, p.Name()))
		callArgs = append(callArgs, name)
	}
	nres := fn.Signature.Results().Len()
	var resNames []string
	for i := 0; i < nres; i++ {
		resNames = append(resNames, fmt.Sprintf("r%d", i))
	}
	call := fn.Name() + "(" + strings.Join(callArgs, ", ") + ")"
	if recvName != "" {
		call = recvName + "." + call
	}
	src.WriteString("package " + pkg.Name() + "\n\nimport (\n\t\"encoding/json\"\n\t\"fmt\"\n\t\"reflect\"\n\t\"testing\"\n\t\"unsafe\"\n")
	var imps []string
	for p := range imports {
		imps = append(imps, p)
	}
	sort.Strings(imps)
	for _, p := range imps {
		src.WriteString("\t\"" + p + "\"\n")
	}
	src.WriteString(")\n\nvar _ = unsafe.Pointer(nil)\n" + harnessHelpers + "\nfunc TestGovcReplay(t *testing.T) {\n\tvar in map[string]interface{}\n")
	src.WriteString("\tjson.Unmarshal([]byte(" + strconv.Quote(string(ij)) + "), &in)\n")
	src.WriteString(strings.Join(decl, "\n") + "\n")
	src.WriteString("\tout := map[string]interface{}{}\n")
	src.WriteString("\tfunc() {\n\t\tdefer func() {\n\t\t\tif r := recover(); r != nil {\n\t\t\t\tout[\"panic\"] = fmt.Sprint(r)\n\t\t\t}\n\t\t}()\n")
	if nres > 0 {
		src.WriteString("\t\t" + strings.Join(resNames, ", ") + " := " + call + "\n")
		for i, r := range resNames {
			fmt.Fprintf(&src, "\t\tout[\"result%d\"] = rpDump(reflect.ValueOf(&%s).Elem())\n", i, r)
		}
	} else {
		src.WriteString("\t\t" + call + "\n")
	}
	src.WriteString("\t}()\n")
	if recvName != "" {
		fmt.Fprintf(&src, "\tout[\"recv\"] = rpDump(reflect.ValueOf(%s))\n", recvName)
	}
	src.WriteString("\tb, _ := json.Marshal(out)\n\tfmt.Println(\"REPLAY-OUT \" + string(b))\n}\n")

	dir, _ := os.MkdirTemp("", "govc-replay")
	defer os.RemoveAll(dir)
	testFile := filepath.Join(dir, "zz_govc_replay_test.go")
	os.WriteFile(testFile, []byte(src.String()), 0644)
	pkgDir := w.pkgDir(fn.Pkg)
	overlay := map[string]interface{}{"Replace": map[string]string{filepath.Join(pkgDir, "zz_govc_replay_test.go"): testFile}}
	oj, _ := json.Marshal(overlay)
	ovFile := filepath.Join(dir, "overlay.json")
	os.WriteFile(ovFile, oj, 0644)
	ctx, cancel := context.WithTimeout(context.Background(), 120*time.Second)
	defer cancel()
	cmd := exec.CommandContext(ctx, "go", "test", "-overlay", ovFile, "-tags", "verif", "-vet=off", "-count=1", "-timeout", "60s", "-v", "-run", "^TestGovcReplay$", ".")
	cmd.Dir = pkgDir
	cmd.Env = append(os.Environ(), "GOFLAGS=-mod=mod", "GOPROXY=off", "GOSUMDB=off", "GOTOOLCHAIN=local")
	var outb bytes.Buffer
	cmd.Stdout = &outb
	cmd.Stderr = &outb
	cmd.Run()
	var observed map[string]interface{}
	for _, ln := range strings.Split(outb.String(), "\n") {
		if strings.HasPrefix(ln, "REPLAY-OUT ") {
			json.Unmarshal([]byte(strings.TrimPrefix(ln, "REPLAY-OUT ")), &observed)
		}
	}
	if observed == nil {
		return "not-replayable", log.String() + "the injected test produced no output:\n" + truncate(outb.String(), 1500)
	}
	oj2, _ := json.Marshal(observed)
	fmt.Fprintf(&log, "real outputs: %s\n", truncate(string(oj2), 3000))
	if p, ok := observed["panic"]; ok {
		fmt.Fprintf(&log, "the real function panicked: %v\n", p)
		if o.Kind == "safety" && !o.forceReplay {
			return "confirmed", log.String()
		}
		if o.Kind == "safety" && o.forceReplay {
			// the input came from the relaxed query (the solver had no model of the full one): it only
			// counts if it also satisfies everything the function may assume -- the full query with the
			// inputs pinned must still have a model
			var pinText strings.Builder
			declared := map[string]bool{}
			for _, in := range ri.Inputs {
				typ := in.Typ
				if pt, ok := typ.Underlying().(*types.Pointer); ok {
					typ = pt.Elem()
				}
				gt, err := w.termOfJSON(inputs[in.Name], typ)
				if err != nil {
					return "not-replayable", log.String() + err.Error()
				}
				for _, pe := range w.pinEq(in.T, gt, typ) {
					fv := map[string]string{}
					collectVars(pe, fv)
					for _, name := range sortedKeys(fv) {
						if !declared[name] && !strings.Contains(fullQuery, "(declare-const "+name+" ") {
							pinText.WriteString("(declare-const " + name + " " + fv[name] + ")\n")
							declared[name] = true
						}
					}
					pinText.WriteString("(assert " + pe.String() + ")\n")
				}
			}
			final := strings.Replace(fullQuery, "(check-sat)\n", pinText.String()+"(check-sat)\n", 1)
			ff := filepath.Join(dir, "final.smt2")
			os.WriteFile(ff, []byte(final), 0644)
			res := runSolver(solvers[0], ff, 20, context.Background())
			fmt.Fprintf(&log, "full query with the inputs pinned: %s\n", res.status)
			if res.status == "sat" {
				return "confirmed", log.String()
			}
			return "not-confirmed", log.String()
		}
		return "not-confirmed", log.String()
	}
	// 3. pin inputs and observed outputs, re-check
	var pins []*Term
	for _, in := range ri.Inputs {
		typ := in.Typ
		if p, ok := typ.Underlying().(*types.Pointer); ok {
			typ = p.Elem()
		}
		gt, err := w.termOfJSON(inputs[in.Name], typ)
		if err != nil {
			return "not-replayable", log.String() + err.Error()
		}
		pins = append(pins, w.pinEq(in.T, gt, typ)...)
	}
	for _, ob := range ri.Obs {
		var val interface{}
		typ := ob.Typ
		if ob.Name == "recv" {
			val = observed["recv"]
			if p, ok := typ.Underlying().(*types.Pointer); ok {
				typ = p.Elem()
			}
		} else {
			val = observed[ob.Name]
		}
		gt, err := w.termOfJSON(val, typ)
		if err != nil {
			return "not-replayable", log.String() + err.Error()
		}
		pins = append(pins, w.pinEq(ob.T, gt, typ)...)
	}
	var pinText strings.Builder
	declared := map[string]bool{}
	for _, p := range pins {
		fv := map[string]string{}
		collectVars(p, fv)
		for _, name := range sortedKeys(fv) {
			if !declared[name] && !strings.Contains(fullQuery, "(declare-const "+name+" ") {
				pinText.WriteString("(declare-const " + name + " " + fv[name] + ")\n")
				declared[name] = true
			}
		}
		pinText.WriteString("(assert " + p.String() + ")\n")
	}
	final := strings.Replace(fullQuery, "(check-sat)\n", pinText.String()+"(check-sat)\n", 1)
	ff := filepath.Join(dir, "final.smt2")
	os.WriteFile(ff, []byte(final), 0644)
	res := runSolver(solvers[0], ff, 20, context.Background())
	fmt.Fprintf(&log, "query with inputs and real outputs pinned: %s\n", res.status)
	if dbg := os.Getenv("GOVC_DEBUG_REPLAY"); dbg != "" {
		os.WriteFile(dbg+".final", []byte(final), 0644)
	}
	if res.status == "error" {
		fmt.Fprintf(&log, "solver said: %s\n", truncate(res.raw, 400))
		if dbg := os.Getenv("GOVC_DEBUG_REPLAY"); dbg != "" {
			os.WriteFile(dbg+".final", []byte(final), 0644)
		}
	}
	switch res.status {
	case "sat":
		return "confirmed", log.String()
	case "unsat":
		return "not-confirmed", log.String() + "the real outputs on the model's inputs satisfy the clause (or differ from the engine's prediction)\n"
	}
	return "inconclusive", log.String()
}

// pinEq equates a symbolic term with a ground value, element-wise for slices
// (array contents beyond len are irrelevant).
func (w *World) pinEq(sym, ground *Term, t types.Type) []*Term {
	switch u := t.Underlying().(type) {
	case *types.Slice:
		var out []*Term
		out = append(out, Eq(slLen(sym), slLen(ground)))
		n := slLen(ground)
		es := elemSortOfSlice(w, sym.Sort)
		for i := int64(0); n.Kind == KInt && i < n.I; i++ {
			out = append(out, w.pinEq(Select(slArr(sym), IntT(i), es), Select(slArr(ground), IntT(i), es), u.Elem())...)
		}
		return out
	case *types.Struct:
		d := w.dts[sym.Sort]
		var out []*Term
		for i := 0; i < u.NumFields(); i++ {
			out = append(out, w.pinEq(Sel(d.Ctors[0].Sels[i], sym), Sel(d.Ctors[0].Sels[i], ground), u.Field(i).Type())...)
		}
		return out
	}
	return []*Term{Eq(sym, ground)}
}

func noteImports(t types.Type, self *types.Package, into map[string]bool) {
	switch u := t.(type) {
	case *types.Named:
		if p := u.Obj().Pkg(); p != nil && p != self {
			into[p.Path()] = true
		}
	case *types.Pointer:
		noteImports(u.Elem(), self, into)
	case *types.Slice:
		noteImports(u.Elem(), self, into)
	}
}

func (w *World) pkgDir(p *ssa.Package) string {
	for _, pk := range w.pkgs {
		if pk.Types == p.Pkg && len(pk.GoFiles) > 0 {
			return filepath.Dir(pk.GoFiles[0])
		}
	}
	return "/repo"
}

func cmdReplay(args []string) {
	if len(args) < 2 {
		fmt.Println("usage: govc replay -file <replay.json>")
		os.Exit(2)
	}
	data, err := os.ReadFile(args[1])
	if err != nil {
		fmt.Println(err)
		os.Exit(2)
	}
	var rep map[string]interface{}
	json.Unmarshal(data, &rep)
	fmt.Printf("obligation: %v\nstatus: %v\nreplay outcome: %v\n%v\n", rep["obligation"], rep["status"], rep["replay_outcome"], rep["replay_log"])
}

// sizeBounds asserts small lengths for the slices and strings of an input (model minimisation).
func (w *World) sizeBounds(tm *Term, t types.Type, depth int, b *strings.Builder) {
	if tm == nil || depth > 2 {
		return
	}
	if p, ok := t.Underlying().(*types.Pointer); ok {
		t = p.Elem()
	}
	switch u := t.Underlying().(type) {
	case *types.Basic:
		if u.Info()&types.IsString != 0 {
			b.WriteString("(assert (<= (str.len " + tm.String() + ") 8))\n")
		}
	case *types.Slice:
		b.WriteString("(assert (<= " + slLen(tm).String() + " 4))\n")
		if _, inner := u.Elem().Underlying().(*types.Slice); inner {
			es := elemSortOfSlice(w, tm.Sort)
			for i := 0; i < 4; i++ {
				b.WriteString(fmt.Sprintf("(assert (<= (%s_len (select %s %d)) 3))\n", es, slArr(tm).String(), i))
			}
		}
	case *types.Struct:
		d := w.dts[tm.Sort]
		if d == nil {
			return
		}
		for i := 0; i < u.NumFields(); i++ {
			w.sizeBounds(Sel(d.Ctors[0].Sels[i], tm), u.Field(i).Type(), depth+1, b)
		}
	}
}

// relaxQuant weakens an assumption for model search: a universally quantified
// conjunct is replaced by a few instances (the first values of its range);
// anything else that still contains a quantifier is dropped.  Every result is
// implied by the input, so models of the original are models of the relaxation.
func relaxQuant(t *Term, depth int) []*Term {
	if !hasQuant(t) {
		return []*Term{t}
	}
	if t.Kind == KApp && t.Op == "and" {
		var out []*Term
		for _, a := range t.Args {
			out = append(out, relaxQuant(a, depth)...)
		}
		return out
	}
	if t.Kind == KQuant && t.Op == "forall" && len(t.Bound) == 1 && t.Bound[0].Sort == "Int" && depth < 3 {
		body := t.Args[0]
		lo := IntT(0)
		if body.Kind == KApp && body.Op == "=>" {
			ant := body.Args[0]
			conj := []*Term{ant}
			if ant.Kind == KApp && ant.Op == "and" {
				conj = ant.Args
			}
			for _, c := range conj {
				if c.Kind == KApp && c.Op == "<=" && len(c.Args) == 2 && sameTerm(c.Args[1], t.Bound[0]) {
					lo = c.Args[0]
				}
			}
		}
		var out []*Term
		for i := int64(0); i < 5; i++ {
			inst := substTerm(body, []*Term{t.Bound[0]}, []*Term{Add(lo, IntT(i))})
			out = append(out, relaxQuant(inst, depth+1)...)
		}
		return out
	}
	if t.Kind == KApp && t.Op == "=>" && !hasQuant(t.Args[0]) {
		var out []*Term
		for _, c := range relaxQuant(t.Args[1], depth) {
			out = append(out, Implies(t.Args[0], c))
		}
		return out
	}
	return nil
}
